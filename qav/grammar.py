"""Specification grammar (DESIGN 3.5): frozen surface forms with their meaning.

The vocabulary was written by reading each pattern of ctparse/time/rules.py at the pinned
commit; it is NOT derived from the regexes at run time, so that a typo introduced into an
alternative makes the correctly spelled word fail here.  Each entry names the pattern line it
comes from.  Only notations the patterns define are listed."""
import datetime as dt

from . import oracle as O

# --- weekdays (rules.py:22-30), index 0 = Monday ---------------------------------------
WEEKDAY_FORMS = [
    ["montag", "montags", "monday", "mondays", "mon", "mon."],
    ["dienstag", "dienstags", "tuesday", "tuesdays", "tue", "tue."],
    ["mittwoch", "mittwochs", "wednesday", "wed", "wed."],
    ["donnerstag", "donnerstags", "thursday", "thursdays", "thu", "thur", "thu."],
    ["freitag", "freitags", "friday", "fridays", "fri", "fri."],
    ["samstag", "samstags", "sonnabend", "sonnabends", "saturday", "saturdays", "sat", "sat."],
    ["sonntag", "sonntags", "sunday", "sundays", "sun", "sun."],
]
# two-letter abbreviations (mo di mi do fr sa so / tu su): defined by the patterns, but they are
# also ordinary words or prefixes of other vocabulary ("do", "so", "die", "mi", "sa"); used only
# where stated
WEEKDAY_SHORT = [["mo", "mo."], ["di", "di.", "tu"], ["mi", "mi."], ["do", "do.", "don"], ["fr", "fr."], ["sa", "sa."], ["so", "so.", "su"]]
WEEKDAY_CANON = ["monday", "tuesday", "wednesday", "thursday", "friday", "saturday", "sunday"]
WEEKDAY_CANON_DE = ["montag", "dienstag", "mittwoch", "donnerstag", "freitag", "samstag", "sonntag"]

# --- months (rules.py:43-56) ----------------------------------------------------------------
MONTH_FORMS = [
    ["january", "januar", "jan", "jan."],
    ["february", "februar", "feb", "feb."],
    ["march", "märz", "mar", "mar.", "mrz", "mär"],
    ["april", "apr", "apr."],
    ["may", "mai"],
    ["june", "juni", "jun", "jun."],
    ["july", "juli", "jul", "jul."],
    ["august", "aug", "aug."],
    ["september", "sept", "sep", "sept.", "sep."],
    ["october", "oktober", "oct", "okt", "oct.", "okt."],
    ["november", "nov", "nov."],
    ["december", "dezember", "dec", "dez", "dec.", "dez."],
]
MONTH_CANON = ["january", "february", "march", "april", "may", "june", "july", "august", "september",
               "october", "november", "december"]
MONTH_CANON_DE = ["januar", "februar", "märz", "april", "mai", "juni", "juli", "august", "september",
                  "oktober", "november", "dezember"]

# --- relative days (rules.py:203-257) -------------------------------------------------------
REL_FORMS = {
    "today": ["today", "heute", "todays", "at this time", "um diese zeit", "zu dieser zeit",
              "um diesen zeitpunkt", "zu diesem zeitpunkt"],
    "tomorrow": ["tomorrow", "tmrw", "tmr", "tommorow", "tomorow", "tommorrow", "tomorrows"],
    "tomorrow-de": ["morgen"],  # also a spelling of 'morning' (rules.py:139): kept apart
    "day-after-tomorrow": ["übermorgen"],
    "yesterday": ["yesterday", "gestern", "yesterdays"],
    "day-before-yesterday": ["vorgestern", "vor gestern"],
    "now": ["now", "jetzt", "right now", "just now", "genau jetzt", "diesen moment", "in diesem moment",
            "gerade eben", "immediately", "rightnow"],
    "eom": ["EOM", "eom", "end of month", "end of the month", "the end of the month", "the EOM",
            "ende des monats", "ende dieses monats", "das ende des monats", "ende des monat"],
    "eoy": ["EOY", "eoy", "end of year", "end of the year", "the end of the year", "the EOY", "jahresende",
            "jahr ende", "jahrende", "ende des jahres", "ende jahres", "das jahresende", "ende des jahr", "das EOY"],
}
THIS_WD = ["this {wd}", "on {wd}", "at {wd}", "am {wd}", "diesen {wd}", "diesem {wd}"]
NEXT_WD = ["next {wd}", "following {wd}", "on next {wd}", "on the next {wd}", "the next {wd}", "at the following {wd}",
           "next week {wd}", "nächsten {wd}", "nächste {wd}", "kommenden {wd}", "kommende {wd}", "am nächsten {wd}",
           "am kommenden {wd}", "den nächsten {wd}", "dem kommenden {wd}", "nächste woche {wd}", "kommende woche {wd}"]
WD_NEXT_WEEK = ["{wd} next week", "{wd} following week", "{wd} nächste woche", "{wd} kommende woche"]


def rel_expected(concept, ref, wd=None):
    """expected value tuple for a relative-day concept at reference datetime ref"""
    d = ref.date()
    one = dt.timedelta(days=1)
    if concept == "today":
        return O.Tdate(d)
    if concept in ("tomorrow", "tomorrow-de"):
        return O.Tdate(d + one)
    if concept == "day-after-tomorrow":
        return O.Tdate(d + 2 * one)
    if concept == "yesterday":
        return O.Tdate(d - one)
    if concept == "day-before-yesterday":
        return O.Tdate(d - 2 * one)
    if concept == "now":
        return O.Tdt(ref)
    if concept == "eom":
        return O.Tdate(O.last_of_month(d))
    if concept == "eoy":
        return O.Tdate(O.last_of_year(d))
    if concept == "this-wd":
        return O.Tdate(O.next_weekday_strict(d, wd))
    if concept in ("next-wd", "wd-next-week"):
        return O.Tdate(O.next_weekday_on_or_after(d + 7 * one, wd))
    raise KeyError(concept)


def rel_forms(all_weekday_spellings=True):
    """-> list of (concept, wd index or None, text)"""
    out = []
    for concept, forms in REL_FORMS.items():
        for f in forms:
            out.append((concept, None, f))
    for wd in range(7):
        names = WEEKDAY_FORMS[wd] if all_weekday_spellings else [WEEKDAY_CANON[wd], WEEKDAY_CANON_DE[wd]]
        for name in names:
            for tpl in THIS_WD:
                out.append(("this-wd", wd, tpl.format(wd=name)))
            for tpl in NEXT_WD:
                out.append(("next-wd", wd, tpl.format(wd=name)))
            for tpl in WD_NEXT_WEEK:
                out.append(("wd-next-week", wd, tpl.format(wd=name)))
    return out


# --- day of month (rules.py:158-173) ----------------------------------------------------------
def dom_forms(n):
    """strict-tier spellings of 'the n-th' (bare digits are ambiguous with hours: not listed)"""
    suf = "th"
    if n % 10 == 1 and n != 11:
        suf = "st"
    elif n % 10 == 2 and n != 12:
        suf = "nd"
    elif n % 10 == 3 and n != 13:
        suf = "rd"
    return ["{}.".format(n), "{}{}".format(n, suf), "the {}{}".format(n, suf), "am {}.".format(n),
            "on the {}{}".format(n, suf), "{:02d}.".format(n), "den {}.".format(n), "{}ter".format(n)]
    # not listed: German '5ten'/'20sten' - '<n>ten' also reads as '<n> ten (o'clock)' by the
    # library's own patterns (competing reading, genuinely ambiguous in a bilingual pattern set)


# --- day + month without year (rules.py:260-272, 367-396) --------------------------------------
def doy_forms(day, month, month_names=None):
    names = month_names if month_names is not None else MONTH_FORMS[month - 1]
    out = ["{}.{}.".format(day, month), "{:02d}.{:02d}.".format(day, month)]
    for nm in names:
        nmc = nm.capitalize()
        out += ["{}. {}".format(day, nmc), "{} {}".format(nmc, day), "{}th of {}".format(day, nmc) if day not in (1, 2, 3, 21, 22, 23, 31)
                else "{}{} of {}".format(day, {1: "st", 2: "nd", 3: "rd"}[day % 10], nmc), "{} {}".format(day, nmc)]
        # glued notations of the numeric day/month patterns with a month name (rules.py ruleDDMM / ruleMMDD)
        out += ["{}/{}".format(day, nm), "{}/{}".format(nmc, day), "{}-{}".format(nm, day), "{}.{}".format(day, nmc)]
    return out


# --- parts of day (rules.py:122-145) -> key of pod_hours ----------------------------------------
POD_FORMS = {
    # not listed: 'so früh', 'so früh/spät wie möglich' - 'so' is also the pattern's abbreviation of Sunday
    "first": ["first", "earliest", "as early", "erste", "erster", "frühestens", "frühest",
              "as early as possible", "first possible", "frühestens möglich", "erster möglicher", "erste mögliche",
              "frühest wie möglich", "earliest possible", "frühstens"],
    "last": ["last", "latest", "letzte", "letzter", "as late as possible", "spätest möglich", "spätest möglicher",
             "spätest mögliche"],
    "earlymorning": ["very early", "sehr früh"],
    "lateevening": ["very late", "sehr spät"],
    "morning": ["morning", "morgens", "morgends", "früh", "frühe", "in der früh", "in der frühe"],
    "forenoon": ["forenoon", "vormittag", "vormittags"],
    "afternoon": ["afternoon", "nachmittag", "nachmittags"],
    "noon": ["noon", "mittag", "mittags"],
    "evening": ["evening", "tonight", "abend", "abends", "late", "spät"],
    "night": ["night", "nacht", "nachts"],
}
# single modifiers (rules.py:112-119): modifier word -> prefix of the pod_hours key
POD_MODS = {"early": "early", "late": "late", "very early": "veryearly", "very late": "verylate",
            "früh": "early", "früher": "early", "frühen": "early", "frühem": "early", "spät": "late", "später": "late", "späten": "late", "spätem": "late",
            "sehr früh": "veryearly", "sehr spät": "verylate"}
POD_MOD_BASES = {"morning": ["morning", "morgens"], "afternoon": ["afternoon", "nachmittag"], "evening": ["evening", "abend"],
                 "night": ["night", "nacht"], "forenoon": ["forenoon", "vormittag"], "noon": ["noon", "mittag"]}
