"""atheris (libFuzzer) target for C01, run as a subprocess by qav.props.c01_fuzz.
Bytes -> (options, reference time, text); oracle = c01.check_total (totality).  Failures are
appended to $QAV_FUZZ_OUT as json lines and the fuzzer keeps going (collect, do not stop)."""
import datetime as dt
import json
import os
import sys

import atheris

sys.path.insert(0, os.environ["QAV_VERIF"])
sys.path.insert(0, os.environ["QAV_REPO"])
import logging  # noqa

logging.disable(logging.CRITICAL)

with atheris.instrument_imports(include=["ctparse"]):
    import ctparse  # noqa

from qav import core, gen  # noqa
from qav.props import c01  # noqa

core.load_repo()
OUT = os.environ["QAV_FUZZ_OUT"]
DEPTHS = [10, 10, 1, 0]
RMLS = [1.0, 1.0, 0.9, 0.5, 0.01]
SCORERS = ["default", "default", "dummy", ("random", 3)]
T0 = dt.datetime(1970, 1, 1)
SPAN_MIN = int((dt.datetime(2100, 12, 31, 23, 59) - T0).total_seconds() // 60)
seen = set()
stats = {"n": 0, "nontrivial": 0, "skipped": 0}


def decode(data):
    hdr = data[:8].ljust(8, b"\0")
    latent = bool(hdr[0] & 1)
    debug = bool(hdr[0] & 2)
    opts = {"latent_time": latent, "max_stack_depth": DEPTHS[hdr[1] % len(DEPTHS)],
            "relative_match_len": RMLS[hdr[2] % len(RMLS)], "scorer": SCORERS[hdr[3] % len(SCORERS)]}
    minutes = int.from_bytes(hdr[4:8], "big") % SPAN_MIN
    ts = T0 + dt.timedelta(minutes=minutes, seconds=hdr[0] % 60, microseconds=(hdr[1] * 3917) % 1000000)
    text = data[8:].decode("utf-8", "replace")[:60]
    return text, ts, opts, debug


def encode(text, ts, flags=1, depth=0, rml=0, scorer=0):
    minutes = int((ts - T0).total_seconds() // 60)
    return bytes([flags, depth, rml, scorer]) + minutes.to_bytes(4, "big") + text.encode("utf-8")


def TestOneInput(data):
    text, ts, opts, debug = decode(data)
    o, cls = gen.bounded_options(text, opts, max_seq=300)
    stats["n"] += 1
    if o is None:
        stats["skipped"] += 1
        return
    if gen.seq_stats(text)[0] >= 1 or text.strip():
        stats["nontrivial"] += 1
    r = c01.check_total(text, ts, o, debug)
    if r and r[0] not in seen:
        seen.add(r[0])
        with open(OUT, "a", encoding="utf-8") as fd:
            fd.write(json.dumps({"bucket": r[0], "detail": r[1][:1500],
                                 "case": {"text": text, "ts": ts.isoformat(), "opts": core.jsonable(o), "debug": debug}}) + "\n")


def main():
    import atexit  # noqa (atexit does not run under libFuzzer; stats are flushed periodically instead)
    atheris.Setup(sys.argv, TestOneInput)
    atheris.Fuzz()


if __name__ == "__main__":
    main()
