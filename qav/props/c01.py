"""C01 Parsing is total: any text, reference time and options yield a result object."""
import json
import os
import signal
import subprocess
import sys
import traceback

from hypothesis import strategies as st

from .. import core, gen

RULE = ("Hypothesis strategies seeded from VERIF_SEED: (G1) arbitrary unicode text <=40 code points, "
        "(G2) token soup of 0-6 tokens from a frozen vocabulary incl. impossible dates, stacked "
        "modifiers, boundary numbers, label-only/separator-only texts, joined by generated separator "
        "runs, (G3) corpus expressions under char deletion/duplication/transposition/case change/"
        "token insertion; x reference times 1970-2100 (leap days, month/year ends, sub-minute parts) "
        "x latent_time x max_stack_depth {0,1,10} x relative_match_len (0,1] x scorer {shipped, "
        "constant, seeded random} x debug; plus the fault 'model file absent' in a fresh subprocess; "
        "thorough adds an atheris coverage-guided campaign. Oracle: neither ctparse() nor exhausting "
        "ctparse_gen() raises (timeout=0, so termination is real), result is a CTParse, str()/repr() "
        "succeed, subject is str, labels a list of str, resolution None or Time/Interval/Duration. "
        "Non-trivial = distinct (text, options) whose cleaned text has >=1 pattern match (production "
        "loop entered) or is a non-empty text on the no-match branch.")

CASE_TIMEOUT = 120


class _CaseTimeout(BaseException):
    pass


def _alarm(*a):
    raise _CaseTimeout()


def exc_bucket(e):
    tb = traceback.extract_tb(e.__traceback__)
    inner = None
    for fr in tb:
        if os.sep + "ctparse" + os.sep in fr.filename and "/qav/" not in fr.filename:
            inner = "{}:{}".format(os.path.basename(fr.filename), fr.name)
    return "{}@{}".format(type(e).__name__, inner or "outside-ctparse")


def check_result(r, m, where):
    import ctparse.types as T
    if not isinstance(r, m.CTParse):
        return ("not-a-result-object:" + where, "got {!r}".format(r))
    try:
        s = str(r)
    except Exception as e:
        return ("str-raises:" + exc_bucket(e), repr(e))
    try:
        rp = repr(r)
    except Exception as e:
        return ("repr-raises:" + exc_bucket(e), repr(e))
    if not isinstance(s, str) or not isinstance(rp, str):
        return ("render-not-str:" + where, "")
    if not isinstance(r.subject, str):
        return ("subject-not-str:" + where, "subject={!r}".format(r.subject))
    if not isinstance(r.labels, list) or not all(isinstance(x, str) for x in r.labels):
        return ("labels-not-list-of-str:" + where, "labels={!r}".format(r.labels))
    if r.resolution is not None and type(r.resolution) not in (T.Time, T.Interval, T.Duration):
        return ("resolution-kind:" + where, "resolution={!r}".format(r.resolution))
    return None


def check_total(text, ts, opts, debug=False):
    """-> (bucket, detail) | None.  opts carries a scorer *spec*; fresh scorer per call."""
    m = core.load_repo()
    base = {k: v for k, v in opts.items() if k != "scorer"}
    # 1 single-result call
    try:
        r = m.ctparse(text, ts=ts, timeout=0, scorer=gen.scorer_from_spec(opts["scorer"]), **base)
    except _CaseTimeout:
        raise
    except Exception as e:
        return ("ctparse-raises:" + exc_bucket(e), "{!r}\n{}".format(e, traceback.format_exc()[-1500:]))
    bad = check_result(r, m, "ctparse")
    if bad:
        return bad
    # 2 stream exhaustion
    try:
        lst = list(m.ctparse_gen(text, ts=ts, timeout=0, scorer=gen.scorer_from_spec(opts["scorer"]), **base))
    except _CaseTimeout:
        raise
    except Exception as e:
        return ("ctparse_gen-raises:" + exc_bucket(e), "{!r}\n{}".format(e, traceback.format_exc()[-1500:]))
    for c in lst:
        bad = check_result(c, m, "ctparse_gen")
        if bad:
            return bad
        if c.resolution is None:
            return ("stream-yields-empty-resolution", repr(c))
    # 3 debug=True returns the stream
    if debug:
        try:
            it = m.ctparse(text, ts=ts, timeout=0, debug=True, scorer=gen.scorer_from_spec(opts["scorer"]), **base)
            for c in it:
                bad = check_result(c, m, "debug-stream")
                if bad:
                    return bad
        except _CaseTimeout:
            raise
        except Exception as e:
            return ("debug-stream-raises:" + exc_bucket(e), repr(e))
    return None


def run_case(acc, text, ts, opts, debug, origin):
    o, cls = gen.bounded_options(text, opts)
    if o is None:
        acc.notes[cls] += 1
        return
    nmatch, nseq = gen.seq_stats(text)
    case = {"text": text, "ts": ts.isoformat(), "opts": core.jsonable(o), "debug": debug}
    signal.signal(signal.SIGALRM, _alarm)
    signal.alarm(CASE_TIMEOUT)
    try:
        r = check_total(text, ts, o, debug)
    except _CaseTimeout:
        acc.inconclusive += 1
        acc.notes["case-exceeded-{}s".format(CASE_TIMEOUT)] += 1
        return
    finally:
        signal.alarm(0)
    key = (text, json.dumps(core.jsonable(o), sort_keys=True), debug)
    acc.case(key, nontrivial=(nmatch >= 1 or text.strip() != ""),
             cls=[origin, cls, "matches>=1" if nmatch else ("nomatch-nonempty" if text.strip() else "empty-text"),
                  "latent" if o["latent_time"] else "nolatent",
                  "scorer:" + (o["scorer"] if isinstance(o["scorer"], str) else "random"),
                  "debug" if debug else "nodebug"],
             sample=case)
    if r:
        acc.fail(r[0], case, r[1])


def _shard(arg):
    pid, seed, n, shard = arg
    acc = core.Acc(pid)
    strat = st.tuples(st.one_of(st.tuples(st.just("soup"), gen.soup_strategy()),
                                st.tuples(st.just("soup"), gen.soup_strategy()),
                                st.tuples(st.just("soup-dates"), gen.soup_strategy(gen.DATE_POOLS, 5)),
                                st.tuples(st.just("family"), gen.family_strategy()),
                                st.tuples(st.just("family"), gen.family_strategy()),
                                st.tuples(st.just("unicode"), st.text(max_size=40)),
                                st.tuples(st.just("ascii-ish"), gen.text_strategy()),
                                st.tuples(st.just("mutated-corpus"), gen.mutate_strategy())),
                      gen.ts_strategy(), gen.options_strategy(), st.booleans())

    def body(c):
        (origin, text), ts, opts, debug = c
        run_case(acc, text, ts, opts, debug, origin)

    core.hyp_run(strat, body, n, core.shard_seed(seed, shard))
    return acc


# --- fixed boundary list: always run, every tier -----------------------------------
BOUNDARY = ["29.02.", "am 29. Februar", "feb 29th", "29.2. 8:00", "today midnight - tomorrow midnight", "mitternacht bis mitternacht morgen", "noon to noon tomorrow", "12-12", "12:30 - 12:15",
            "5.10.2020 8 o'clock - 5.10.2020 8 o'clock", "heute 8 uhr bis heute 8 uhr", "evening 8-12", "", " ", "#", "#tag", "# ", "##", ",;()", "\x00", "very early very early morning",
            "sehr früh sehr früh morgens", "late late late evening", "early early early early morning",
            "31.04.2020", "31.04.", "30.2.", "29.02.2019", "12.02.2020 - 31.", "31.6.2020 8:00",
            "31.04.2020 for 2 days", "30.02.2021 - 31.02.2021", "2 days 30.2.2020 - 31.2.2020",
            "monday 31.04.", "31.11. morning", "february 30 2020", "feb 30", "31st of june 2020",
            "0 00 24 25 32 60 2400", "1/2", "for", "-", "to", "12am", "0am", "24:00", "now", "9-5",
            "22-2", "5-5", "8pm", "at", "am", "a m", "1000000 months", "tomorrow for 1000000 months",
            "today for 99999999 days", "31.12.2029 for 9999 weeks", "heute für 120000 monate",
            "1.1.2020 for 99999999999 hours", "von bis", "between and", "the the the", "of of",
            "gargelbabel", "Meeting tomorrow #work", "#work", "tomorrow #1", "５ｐｍ", "١٢", "٣.٤.٢٠٢٠",
            "8 uhr früh", "früh früh", "very very early", "first last", "first possible morning",
            "halb", "half", "quarter to", "viertel vor 0", "halb 0", "half 0", "quarter to midnight"]


def _boundary(arg):
    pid, part = arg
    import datetime as dt
    acc = core.Acc(pid)
    for text in part:
        for ts in (dt.datetime(2020, 2, 29, 23, 59, 59, 999999), dt.datetime(2019, 1, 31, 8, 0), dt.datetime(2096, 3, 1, 0, 0),
                   dt.datetime(2100, 2, 28, 12, 0), dt.datetime(1970, 1, 1, 0, 0), dt.datetime(2100, 12, 31, 23, 59, 59)):
            for latent in (True, False):
                for depth in (0, 1, 10):
                    for sc in ("default", "dummy", ["random", 7]):
                        run_case(acc, text, ts, {"latent_time": latent, "max_stack_depth": depth,
                                                 "relative_match_len": 1.0 if depth else 0.5,
                                                 "scorer": sc}, depth == 1, "boundary-list")
    return acc


# --- fault: model file absent --------------------------------------------------------
_CHILD = r"""
import sys, os, json
# the fault is made real: the library is imported from a scratch copy of the package that has no model file
os.environ["QAV_REPO"] = {scratch!r}
sys.path.insert(0, {verif!r}); sys.path.insert(0, {scratch!r})
import logging; logging.disable(logging.CRITICAL)
from qav import core
m = core.load_repo()
import datetime
_sc = core.default_scorer()
# 'falls back to the constant scorer' is decided by behaviour: every candidate of every probe text gets one and the same score
_scores = set()
for _t in ("tomorrow 8pm", "friday 9-5", "5.10.2020 at 8", "next week monday morning"):
    for _c in m.ctparse_gen(_t, ts=datetime.datetime(2020, 2, 3, 10, 0), timeout=0):
        if _c is not None: _scores.add(_c.score)
out = {{"default_scorer": type(_sc).__name__, "constant": len(_scores) <= 1, "fails": [], "n": 0, "nt": 0}}
if out["constant"]:
    from qav.props import c01
    cases = json.load(sys.stdin)
    import datetime
    for text, ts, opts, debug in cases:
        r = c01.check_total(text, datetime.datetime.fromisoformat(ts), opts, debug)
        out["n"] += 1
        if r: out["fails"].append([r[0], {{"text": text, "ts": ts, "opts": opts, "debug": debug, "model_absent": True}}, r[1]])
print("@@RESULT@@" + json.dumps(out))
"""


def _scratch_without_model():
    import shutil
    import tempfile
    d = tempfile.mkdtemp(prefix="qav-nomodel-")
    shutil.copytree(os.path.join(core.REPO, "ctparse"), os.path.join(d, "ctparse"),
                    ignore=lambda src, names: [n for n in names if n == "__pycache__" or n.endswith(".pbz")])
    return d


def model_absent_batch(pid, cases):
    acc = core.Acc(pid)
    import shutil
    scratch = _scratch_without_model()
    try:
        code = _CHILD.format(verif=core.VERIF, scratch=scratch)
        env = dict(os.environ)
        env["PYTHONHASHSEED"] = "0"
        p = subprocess.run([sys.executable, "-W", "ignore", "-c", code], input=json.dumps(cases),
                           capture_output=True, text=True, env=env, timeout=1800)
    finally:
        shutil.rmtree(scratch, ignore_errors=True)
    line = [l for l in p.stdout.splitlines() if l.startswith("@@RESULT@@")]
    if p.returncode != 0 or not line:
        # the import itself failing without the model is a finding about the fallback, but
        # only if the tree imports fine with the model present (it does: we got here)
        acc.n += 1
        acc.fail("model-absent:import-or-run-fails", {"model_absent": True, "text": None},
                 (p.stderr or p.stdout)[-1500:])
        return acc
    out = json.loads(line[0][len("@@RESULT@@"):])
    if not out["constant"]:
        acc.n += 1
        acc.fail("model-absent:fallback-is-not-constant-scorer", {"model_absent": True, "text": None},
                 "default scorer is " + out["default_scorer"] + ": candidates of the probe texts get different scores")
        return acc
    for c in cases:
        acc.case(("absent", json.dumps(c, sort_keys=True)), nontrivial=True, cls="model-absent",
                 sample={"model_absent": True, "text": c[0], "ts": c[1], "opts": c[2]})
    for b, case, detail in out["fails"]:
        acc.fail("model-absent:" + b, case, detail)
    return acc


def absent_cases(seed, n):
    """a deterministic batch drawn with Hypothesis from the same strategies (default scorer
    only, since the fault concerns the default scorer)"""
    cases = []

    def body(c):
        text, ts, latent, depth = c
        o, _ = gen.bounded_options(text, {"latent_time": latent, "max_stack_depth": depth,
                                          "relative_match_len": 1.0, "scorer": "default"})
        if o is not None:
            cases.append([text, ts.isoformat(), o, False])

    core.hyp_run(st.tuples(gen.text_strategy(), gen.ts_strategy(), st.booleans(), st.sampled_from([0, 1, 10])),
                 body, n, core.shard_seed(seed, 999))
    for t in BOUNDARY:
        cases.append([t, "2020-02-29T23:59:59", {"latent_time": True, "max_stack_depth": 10,
                                                   "relative_match_len": 1.0, "scorer": "default"}, False])
    return cases


def run(ctx):
    n = 400000 if ctx.thorough else 6400
    shards = 32 if ctx.thorough else 16
    acc = core.pmap_acc(ctx.pid, _shard, [(ctx.pid, ctx.seed, n // shards, i) for i in range(shards)])
    acc.merge(core.pmap_acc(ctx.pid, _boundary, [(ctx.pid, p) for p in core.chunks(BOUNDARY, 16)]))
    acc.merge(model_absent_batch(ctx.pid, absent_cases(ctx.seed, 3000 if ctx.thorough else 400)))
    extra = {}
    if ctx.thorough:
        from . import c01_fuzz
        facc, finfo = c01_fuzz.campaign(ctx)
        acc.merge(facc)
        extra["atheris"] = finfo
    return core.finish(ctx, acc, RULE, assumptions=[
        "timeout=0 in every call (a wall-clock timeout would make verdicts load dependent); a case running longer than {}s is counted inconclusive".format(CASE_TIMEOUT),
        "work bound: texts with >600 candidate match sequences are skipped (counted in notes); max_stack_depth=0 only for texts with <=40 candidate sequences of <=6 matches, otherwise run with depth 10 and classified so",
        "reference times 1970-2100"], extra=extra, shrinker=_shrink)


def _fails(case):
    r = replay(case)
    return r[0] if r else None


def _cands(case):
    text = case.get("text")
    if not text:
        return
    toks = text.split(" ")
    if len(toks) > 1:
        for i in range(len(toks)):
            yield dict(case, text=" ".join(toks[:i] + toks[i + 1:]))
    if len(text) <= 30:
        for i in range(len(text)):
            yield dict(case, text=text[:i] + text[i + 1:])
    o = case["opts"]
    for k, v in (("latent_time", False), ("relative_match_len", 1.0), ("max_stack_depth", 10), ("scorer", "default")):
        if o.get(k) != v:
            yield dict(case, opts=dict(o, **{k: v}))
    if case.get("debug"):
        yield dict(case, debug=False)
    if case["ts"] != "2020-01-01T00:00:00":
        yield dict(case, ts="2020-01-01T00:00:00")


def _shrink(case, bucket):
    if case.get("model_absent"):
        return case, None
    c = core.greedy_shrink(case, _fails, _cands, budget=400)
    r = replay(c)
    return c, (r[1] if r else None)


def replay(case):
    if case.get("model_absent"):
        if case.get("text") is None:
            acc = model_absent_batch("C01", [["tomorrow", "2020-01-01T00:00:00", {"latent_time": True, "max_stack_depth": 10, "relative_match_len": 1.0, "scorer": "default"}, False]])
        else:
            acc = model_absent_batch("C01", [[case["text"], case["ts"], case["opts"], case.get("debug", False)]])
        for b, lst in acc.failures.items():
            return (b, lst[0][1])
        return None
    opts = dict(case["opts"])
    if isinstance(opts.get("scorer"), list):
        opts["scorer"] = tuple(opts["scorer"])
    signal.signal(signal.SIGALRM, _alarm)
    signal.alarm(CASE_TIMEOUT)
    try:
        return check_total(case["text"], core.parse_ts(case["ts"]), opts, case.get("debug", False))
    except _CaseTimeout:
        return None
    finally:
        signal.alarm(0)
