"""C03 Relative-day expressions hit the exact calendar day for every reference time."""
import datetime as dt

from hypothesis import strategies as st

from .. import core
from .. import grammar as G
from .. import oracle as O

RULE = ("Surface forms of today/tomorrow/übermorgen/yesterday/vorgestern/now/EOM/EOY and this|next <weekday>, "
        "<weekday> next week x every weekday spelling (frozen vocabulary, {nforms} forms) x reference "
        "times. quick: Hypothesis sample of (form, date of the 2016-2043 cycle with half of the dates "
        "from the edge set = month/year ends and starts, 28/29 Feb, week boundaries, time of day incl. "
        "23:59:59.999999). thorough: one canonical form per concept over EVERY date of the 28-year cycle "
        "x 3 times of day (exhaustive for that sub-domain) and every surface form over a quarter of the "
        "edge dates. Oracle: date.toordinal arithmetic (no dateutil) with the conventions the property "
        "fixes. Also: ctparse('now') without ts, bracketed by two wall-clock reads. Non-trivial = "
        "distinct (form, reference time) whose reference date is an edge date.")


def check_item(concept, wd, text, ref):
    exp = G.rel_expected(concept, ref, wd)
    try:
        got = O.bestval(text, ref)
    except Exception as e:
        return ("parse-raises(see C01):" + type(e).__name__, repr(e))
    if got != exp:
        return ("{}:wrong-day".format(concept) if got is not None and got[0] == "T" and got[4] is None or concept == "now"
                else "{}:not-a-date".format(concept),
                "{!r} at {} -> {} expected {}".format(text, ref.isoformat(), O.vstr(got), O.vstr(exp)))
    return None


def do(acc, concept, wd, text, ref, origin):
    r = check_item(concept, wd, text, ref)
    edge = O.is_edge(ref.date())
    acc.case((text, ref), nontrivial=edge, cls=[origin, "concept:" + concept, "edge-date" if edge else "plain-date"],
             sample={"text": text, "ts": ref.isoformat(), "expected": O.vstr(G.rel_expected(concept, ref, wd))})
    if r:
        acc.fail(r[0], {"concept": concept, "wd": wd, "text": text, "ts": ref.isoformat()}, r[1])


def _quick_shard(arg):
    pid, seed, n, shard = arg
    acc = core.Acc(pid)
    forms = G.rel_forms()
    edges = O.edge_dates()
    times = O.SWEEP_TIMES + [dt.time(8, 30), dt.time(0, 0, 1)]
    strat = st.tuples(st.sampled_from(forms),
                      st.one_of(st.sampled_from(edges), st.dates(O.CYCLE_START, O.CYCLE_END)),
                      st.sampled_from(times))

    def body(c):
        (concept, wd, text), d, t = c
        do(acc, concept, wd, text, dt.datetime.combine(d, t), "sampled")

    core.hyp_run(strat, body, n, core.shard_seed(seed, shard))
    return acc


CANON = [("today", None, "today"), ("tomorrow", None, "tomorrow"), ("day-after-tomorrow", None, "übermorgen"),
         ("yesterday", None, "gestern"), ("day-before-yesterday", None, "vorgestern"), ("now", None, "now"),
         ("eom", None, "end of the month"), ("eoy", None, "EOY")] + \
        [("this-wd", w, "this " + G.WEEKDAY_CANON[w]) for w in range(7)] + \
        [("next-wd", w, "nächsten " + G.WEEKDAY_CANON_DE[w]) for w in range(7)] + \
        [("wd-next-week", w, G.WEEKDAY_CANON[w] + " next week") for w in range(7)]


def _cycle_shard(arg):
    pid, dates = arg
    acc = core.Acc(pid)
    for d in dates:
        for t in O.SWEEP_TIMES:
            ref = dt.datetime.combine(d, t)
            for concept, wd, text in CANON:
                do(acc, concept, wd, text, ref, "full-cycle-canonical")
    return acc


def _forms_shard(arg):
    pid, forms, dates = arg
    acc = core.Acc(pid)
    for i, (concept, wd, text) in enumerate(forms):
        for j, d in enumerate(dates):
            ref = dt.datetime.combine(d, O.SWEEP_TIMES[(i + j) % 3])
            do(acc, concept, wd, text, ref, "all-forms-edge-dates")
    return acc


def now_without_ts(acc):
    m = core.load_repo()
    for text in ("now", "jetzt"):
        a = dt.datetime.now()
        r = m.ctparse(text, timeout=0)
        b = dt.datetime.now()
        got = O.value(r.resolution) if r else None
        ok = got in (O.Tdt(a), O.Tdt(b))
        acc.case(("now-no-ts", text), nontrivial=True, cls="omitted-reference-time", sample={"text": text, "ts": None})
        if not ok:
            acc.fail("omitted-ts-is-not-current-time", {"concept": "now-no-ts", "text": text, "ts": None},
                     "{} not the minute of {} or {}".format(O.vstr(got), a, b))


def omitted_ts_owned_clock(acc):
    """'An omitted reference time means the current time': the harness owns the clock by
    replacing the name `datetime` inside the parser module with a subclass whose now() is
    controlled, at moments long after import (year end, leap day).  A result equal to the
    real wall-clock answer is accepted too (an implementation may read the time differently)."""
    m = core.load_repo()
    real = m.datetime

    def fake(at):
        class FakeDT(real):
            @classmethod
            def now(cls, tz=None):
                # like the real now(): an instance of the class it is called on
                return cls(at.year, at.month, at.day, at.hour, at.minute, at.second, at.microsecond)
        return FakeDT

    moments = [dt.datetime(2031, 12, 31, 23, 59, 30), dt.datetime(2032, 2, 29, 0, 0, 5), dt.datetime(2027, 4, 30, 12, 0)]
    forms = [("now", None, "now"), ("now", None, "jetzt"), ("today", None, "today"), ("tomorrow", None, "tomorrow"),
             ("yesterday", None, "gestern"), ("eom", None, "EOM"), ("this-wd", 4, "this friday"), ("next-wd", 0, "nächsten montag")]
    for at in moments:
        for concept, wd, text in forms:
            try:
                m.datetime = fake(at)
                a = dt.datetime.now()
                r = m.ctparse(text, timeout=0)
                b = dt.datetime.now()
            finally:
                m.datetime = real
            got = O.value(r.resolution) if r else None
            ok = got in (G.rel_expected(concept, at, wd), G.rel_expected(concept, a, wd), G.rel_expected(concept, b, wd))
            acc.case(("no-ts-owned", text, at), nontrivial=True, cls="omitted-reference-time(owned clock)",
                     sample={"text": text, "ts": None, "clock_set_to": at.isoformat()})
            if not ok:
                acc.fail("omitted-ts-is-not-current-time", {"concept": "no-ts-owned", "text": text, "ts": None},
                         "{!r} with the clock at {} -> {} (expected {})".format(text, at, O.vstr(got), O.vstr(G.rel_expected(concept, at, wd))))


_CHILD = r"""
import sys, json, datetime as D
real = D.datetime
state = {"now": real(2031, 12, 31, 23, 58, 0)}
class FakeDT(real):
    @classmethod
    def now(cls, tz=None):
        a = state["now"]                 # like the real now(): an instance of the class it is called on
        return cls(a.year, a.month, a.day, a.hour, a.minute, a.second, a.microsecond)
D.datetime = FakeDT                      # installed BEFORE the library is imported
sys.path.insert(0, %(verif)r); sys.path.insert(0, %(repo)r)
import logging; logging.disable(logging.CRITICAL)
from qav import core, oracle as O
m = core.load_repo()
out = {}
for at in (real(2032, 2, 29, 0, 0, 5), real(2033, 1, 1, 12, 30, 0)):
    state["now"] = at                    # the clock has moved on since import
    for text in %(texts)r:
        a = real.now()
        r = m.ctparse(text, timeout=0)
        out[at.isoformat() + "|" + text] = [O.value(r.resolution) if r else None, a.isoformat()]
print("@@R@@" + json.dumps(out))
"""


def omitted_ts_after_import(acc):
    """same clause, with the clock owned from before the import of the library (fresh
    subprocess): a reference time frozen at import time shows up as the import-time answer"""
    import json
    import subprocess
    import sys as _sys
    forms = [("now", None, "now"), ("today", None, "heute"), ("tomorrow", None, "tomorrow"), ("eoy", None, "EOY"),
             ("this-wd", 2, "this wednesday")]
    code = _CHILD % {"verif": core.VERIF, "repo": core.REPO, "texts": [f[2] for f in forms]}
    p = subprocess.run([_sys.executable, "-W", "ignore", "-c", code], capture_output=True, text=True, timeout=600)
    line = [l for l in p.stdout.splitlines() if l.startswith("@@R@@")]
    if p.returncode != 0 or not line:
        raise core.HarnessError("clock-owning subprocess failed: " + (p.stderr or p.stdout)[-800:])
    out = json.loads(line[0][5:])
    for key, (got, real_now) in sorted(out.items()):
        at_s, text = key.split("|", 1)
        at = dt.datetime.fromisoformat(at_s)
        concept, wd, _ = [f for f in forms if f[2] == text][0]
        got = tuple(got) if got is not None else None
        real_a = dt.datetime.fromisoformat(real_now)
        ok = got in (G.rel_expected(concept, at, wd), G.rel_expected(concept, real_a, wd),
                     G.rel_expected(concept, real_a + dt.timedelta(minutes=1), wd))
        acc.case(("no-ts-subprocess", key), nontrivial=True, cls="omitted-reference-time(clock owned before import)",
                 sample={"text": text, "ts": None, "clock_at_import": "2031-12-31T23:58:00", "clock_at_call": at_s})
        if not ok:
            acc.fail("omitted-ts-is-not-current-time", {"concept": "no-ts-owned", "text": text, "ts": None},
                     "{!r}: clock was 2031-12-31 23:58 at import and {} at the call -> {} (expected {})".format(
                         text, at, O.vstr(got), O.vstr(G.rel_expected(concept, at, wd))))


def run(ctx):
    forms = G.rel_forms()
    acc = core.Acc(ctx.pid)
    now_without_ts(acc)
    omitted_ts_owned_clock(acc)
    omitted_ts_after_import(acc)
    exhaustive = False
    if ctx.thorough:
        dates = list(O.cycle_dates())
        acc.merge(core.pmap_acc(ctx.pid, _cycle_shard, [(ctx.pid, p) for p in core.chunks(dates, 64)]))
        edges = [d for i, d in enumerate(O.edge_dates()) if i % 4 == ctx.seed % 4]
        acc.merge(core.pmap_acc(ctx.pid, _forms_shard, [(ctx.pid, p, edges) for p in core.chunks(forms, 64)]))
        exhaustive = True
    n = 24000 if ctx.thorough else 8000
    acc.merge(core.pmap_acc(ctx.pid, _quick_shard, [(ctx.pid, ctx.seed, n // 16, i) for i in range(16)]))
    return core.finish(ctx, acc, RULE.format(nforms=len(forms)), exhaustive=False, assumptions=[
        "conventions as fixed by the property: this X / bare X = first X strictly after today; next X / X next week = first X on or after today+7; EOM/EOY = last day of the reference month/year",
        "English 'the day after tomorrow' / 'the day before yesterday' have no rule in this library (German übermorgen/vorgestern do) and are not asserted",
        "default options (latent_time on, depth 10, shipped model), timeout=0"],
        extra={"exhaustive_subdomains": ["29 canonical forms x every date 2016-2043 x 3 times of day"] if exhaustive else []})


def replay(case):
    if case.get("concept") in ("now-no-ts", "no-ts-owned"):
        acc = core.Acc("C03")
        now_without_ts(acc)
        omitted_ts_owned_clock(acc)
        omitted_ts_after_import(acc)
        for b, lst in acc.failures.items():
            return (b, lst[0][1])
        return None
    return check_item(case["concept"], case["wd"], case["text"], core.parse_ts(case["ts"]))
