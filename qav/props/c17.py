"""C17 Training data are truthful: one sample per trace prefix, labelled by value."""
import collections
import datetime as dt
import json
import os

from hypothesis import strategies as st

from .. import core, gen
from ..oracle import nb_ref, value
from .c16 import RefNB, ngrams, corpus_strategy

RULE = ("(a) entries (text, ts, gold) built from bundled corpus / auto-corpus / dataset texts and "
        "duration/interval/time grammar texts; gold = a fresh object (random span) with the value of a "
        "randomly chosen candidate, a single-field perturbation of it, or the dataset's own gold (also several entries with the same text but different gold in one builder call); "
        "make_partial_rule_dataset(...) must equal, as a list, [ (prefix of production, value(candidate)"
        "==value(gold)) for every candidate of an independent ctparse_gen run, for every prefix ]; same "
        "for run_corpus with target = nb_str of a chosen candidate. (b) Hypothesis training sets with a "
        "positive example duplicated k=1..5 times: retrained log-odds of that example's trace never "
        "decreases (tolerance 1e-12). Non-trivial = distinct entries with >=2 candidates of which at "
        "least one is labelled positive; (b) distinct (training set, example, k).")


def _lib():
    core.load_repo()
    import ctparse.corpus as C
    import ctparse.types as T
    import ctparse.scorer as S
    return C, T, S


def make_obj(v, span=(0, 0)):
    _, T, _ = _lib()
    if v[0] == "T":
        x = T.Time(year=v[1], month=v[2], day=v[3], hour=v[4], minute=v[5], DOW=v[6], POD=v[7])
    elif v[0] == "I":
        x = T.Interval(t_from=make_obj(v[1]) if v[1] else None, t_to=make_obj(v[2]) if v[2] else None)
    else:
        x = T.Duration(v[1], T.DurationUnit(v[2]))
    x.mstart, x.mend = span
    return x


def perturb(v, k):
    if v[0] == "T":
        i = 1 + k % 5
        l = list(v)
        l[i] = (l[i] or 0) + 1 if l[i] is not None else 1
        return tuple(l)
    if v[0] == "I":
        if v[1] is not None:
            return ("I", perturb(v[1], k), v[2])
        return ("I", v[1], perturb(v[2], k))
    return ("D", v[1] + 1, v[2]) if k % 2 else ("D", v[1], "weeks" if v[2] != "weeks" else "days")


def expected_samples(text, ts, goldv, scorer, depth, rml=1.0):
    m = core.load_repo()
    out = []
    ncand = npos = 0
    for c in m.ctparse_gen(text, ts, timeout=0, relative_match_len=rml, max_stack_depth=depth,
                           scorer=scorer, latent_time=False):
        if c is None:
            continue
        ncand += 1
        y = value(c.resolution) == goldv
        npos += int(y)
        for i in range(1, len(c.production) + 1):
            out.append(([str(p) for p in c.production[:i]], y))
    return out, ncand, npos


def check_entry(text, ts, mode, k, span, scorer_spec, depth):
    """-> (fails, info)"""
    C, T, S = _lib()
    m = core.load_repo()
    mk = lambda: S.DummyScorer() if scorer_spec == "dummy" else None  # noqa
    cands = [c for c in m.ctparse_gen(text, ts, timeout=0, max_stack_depth=depth, scorer=mk(), latent_time=False) if c]
    if not cands:
        return [], None
    base = value(cands[k % len(cands)].resolution)
    if mode == "perturbed":
        goldv = perturb(base, k)
    else:
        goldv = base
    gold = make_obj(goldv, span)
    if value(gold) != goldv:
        raise core.HarnessError("gold construction lost fields")
    exp, ncand, npos = expected_samples(text, ts, goldv, mk(), depth)
    fails = []
    try:
        got = [(list(X), y) for X, y in C.make_partial_rule_dataset(
            [C.TimeParseEntry(text=text, ts=ts, gold=gold)], scorer=mk() or core.default_scorer(), timeout=0,
            max_stack_depth=depth)]
    except Exception as e:
        return [("builder-raises:" + type(e).__name__, repr(e))], (ncand, npos, goldv)
    if got != exp:
        fails.append((classify(got, exp) + ":make_partial_rule_dataset",
                      "gold {} : builder gave {} samples ({} positive), expected {} ({} positive); first diff {}".format(
                          goldv, len(got), sum(y for _, y in got), len(exp), sum(y for _, y in exp), first_diff(got, exp))))
    return fails, (ncand, npos, goldv)


def check_batch(text, ts, modes_ks, scorer_spec, depth):
    """several entries with the SAME text and reference time but different gold values in ONE builder call (a builder
    that remembers its work per text must still label every entry by its own gold)"""
    C, T, S = _lib()
    m = core.load_repo()
    mk = lambda: S.DummyScorer() if scorer_spec == "dummy" else None  # noqa
    cands = [c for c in m.ctparse_gen(text, ts, timeout=0, max_stack_depth=depth, scorer=mk(), latent_time=False) if c]
    if not cands:
        return [], None
    entries, exp, golds = [], [], []
    for mode, k in modes_ks:
        base = value(cands[k % len(cands)].resolution)
        gv = perturb(base, k) if mode == "perturbed" else base
        golds.append(gv)
        entries.append(C.TimeParseEntry(text=text, ts=ts, gold=make_obj(gv)))
        e, _, _ = expected_samples(text, ts, gv, mk(), depth)
        exp += e
    try:
        got = [(list(X), y) for X, y in C.make_partial_rule_dataset(entries, scorer=mk() or core.default_scorer(), timeout=0,
                                                                     max_stack_depth=depth)]
    except Exception as e:
        return [("builder-raises:" + type(e).__name__, repr(e))], (len(cands), golds)
    if got != exp:
        return [(classify(got, exp) + ":make_partial_rule_dataset:batch-of-entries-with-the-same-text",
                 "golds {}: {}".format(golds, first_diff(got, exp)))], (len(cands), golds)
    return [], (len(cands), golds)


def classify(got, exp):
    if [x for x, _ in got] == [x for x, _ in exp]:
        return "labels-differ"
    if len(got) != len(exp):
        return "sample-count-differs"
    return "samples-differ"


def first_diff(a, b):
    for i, (x, y) in enumerate(zip(a, b)):
        if x != y:
            return "at {}: {} vs {}".format(i, x, y)
    return "length {} vs {}".format(len(a), len(b))


def check_run_corpus(lines):
    """lines: list of (ts, [texts], k) -> fails.  Targets are nb_str of chosen candidates."""
    C, T, S = _lib()
    m = core.load_repo()
    corpus = []
    expX, expy = [], []
    for ts, texts, k in lines:
        first = [c for c in m.ctparse_gen(texts[0], ts, timeout=0, max_stack_depth=0, scorer=S.DummyScorer(),
                                          latent_time=False) if c]
        if not first:
            continue
        tv = value(first[k % len(first)].resolution)
        target = nb_ref(tv)  # written the way the bundled corpora write annotations, not with the library's printer
        ok_texts = []
        for t in texts:
            e, ncand, npos = expected_samples(t, ts, tv, S.DummyScorer(), 0)
            if npos == 0:
                continue  # run_corpus is documented to raise if a target is never produced
            ok_texts.append(t)
            for X, y in e:
                expX.append(X)
                expy.append(y)
        if ok_texts:
            corpus.append((target, ts.strftime("%Y-%m-%dT%H:%M"), ok_texts))
    if not corpus:
        return [], 0
    try:
        Xs, ys = C.run_corpus(corpus)
    except Exception as e:
        return [("run_corpus-raises:" + type(e).__name__, repr(e))], len(corpus)
    got = list(zip([list(x) for x in Xs], list(ys)))
    exp = list(zip(expX, expy))
    if got != exp:
        return [(classify(got, exp) + ":run_corpus", first_diff(got, exp))], len(corpus)
    return [], len(corpus)


# ---------------------------------------------------------------------------------

_texts_cache = None


def all_texts():
    """(origin, text, ts, dataset_gold_or_None)"""
    global _texts_cache
    if _texts_cache is not None:
        return _texts_cache
    C, T, S = _lib()
    out = []
    for t, ts, _ in gen.corpus_texts():
        out.append(("corpus", t, ts, None))
    from ctparse.time.auto_corpus import corpus as auto_corpus
    for target, ts, tests in auto_corpus:
        for t in tests:
            out.append(("auto_corpus", t, dt.datetime.strptime(ts, "%Y-%m-%dT%H:%M"), None))
    for e in C.load_timeparse_corpus(os.path.join(core.REPO, "datasets", "timeparse_corpus.json")):
        out.append(("dataset", e.text, e.ts, e.gold))
    for t in ["monday morning", "Montagmorgen", "monday", "montag früh", "sunday", "sonntag abend", "mon", "tuesday noon",
              "morning", "monday 8:00", "january", "1st", "midnight", "0:00", "0:05 monday", "montag 0 uhr"]:
        out.append(("grammar-duration", t, dt.datetime(2020, 3, 4, 12, 0), None))
    for t in ["2 days", "for 3 weeks", "eine nacht", "tomorrow for 2 days", "half an hour", "3 nächte",
              "5.10.2020 for 1 month", "two hours", "14 tage", "30 minutes", "1 night 5.10. - 6.10.2020"]:
        out.append(("grammar-duration", t, dt.datetime(2020, 3, 4, 12, 0), None))
    _texts_cache = out
    return out


def _shard_a(arg):
    pid, seed, n, shard = arg
    acc = core.Acc(pid)
    texts = all_texts()

    def body(c):
        idx, mode, k, span, sc, depth = c
        origin, text, ts, dgold = texts[idx % len(texts)]
        o, cls = gen.bounded_options(text, {"max_stack_depth": depth}, max_seq=200, max_seq_depth0=30)
        if o is None:
            acc.notes[cls] += 1
            return
        depth = o["max_stack_depth"]
        case = {"text": text, "ts": ts.isoformat(), "mode": mode, "k": k, "span": list(span), "scorer": sc, "depth": depth}
        if k % 4 == 0:
            mk_ = [("candidate", k), ("candidate", k + 1), ("perturbed", k), ("candidate", k)]
            fails, info = check_batch(text, ts, mk_, sc, depth)
            if info is not None:
                acc.case((text, case["ts"], "batch", k, sc, depth), nontrivial=len(set(info[1])) >= 2,
                         cls=[origin, "mode:batch-same-text", cls], sample=dict(case, mode="batch", golds=info[1]))
                for b, d in fails:
                    acc.fail(b, dict(case, mode="batch", batch=[list(x) for x in mk_]), d)
        if mode == "dataset-gold" and dgold is not None:
            fails, info = check_dataset_entry(text, ts, dgold, sc, depth)
        else:
            if mode == "dataset-gold":
                mode = case["mode"] = "candidate"
            fails, info = check_entry(text, ts, mode, k, tuple(span), sc, depth)
        if info is None:
            acc.case(("nocand", text), False, cls=[origin, "no-candidate"])
            return
        ncand, npos, goldv = info
        acc.case((text, case["ts"], goldv, sc, depth), nontrivial=(ncand >= 2 and npos >= 1),
                 cls=[origin, "mode:" + mode, "gold-kind:" + goldv[0], cls,
                      "positives>=1" if npos else "positives=0", "cands>=2" if ncand >= 2 else "cands<2"],
                 sample=dict(case, gold=goldv, candidates=ncand, positives=npos))
        for b, d in fails:
            acc.fail(b, case, d)

    strat = st.tuples(st.integers(0, 10 ** 6), st.sampled_from(["candidate", "candidate", "perturbed", "dataset-gold"]),
                      st.integers(0, 50), st.tuples(st.integers(0, 30), st.integers(0, 30)),
                      st.sampled_from(["dummy", "default"]), st.sampled_from([10, 10, 0]))
    core.hyp_run(strat, body, n, core.shard_seed(seed, shard))
    return acc


def check_dataset_entry(text, ts, gold, scorer_spec, depth):
    C, T, S = _lib()
    m = core.load_repo()
    mk = lambda: S.DummyScorer() if scorer_spec == "dummy" else None  # noqa
    goldv = value(gold)
    exp, ncand, npos = expected_samples(text, ts, goldv, mk(), depth)
    try:
        got = [(list(X), y) for X, y in C.make_partial_rule_dataset(
            [C.TimeParseEntry(text=text, ts=ts, gold=gold)], scorer=mk() or core.default_scorer(), timeout=0,
            max_stack_depth=depth)]
    except Exception as e:
        return [("builder-raises:" + type(e).__name__, repr(e))], (ncand, npos, goldv)
    if ncand == 0:
        return [], None
    if got != exp:
        return [(classify(got, exp) + ":make_partial_rule_dataset",
                 "dataset gold {}: {}".format(goldv, first_diff(got, exp)))], (ncand, npos, goldv)
    return [], (ncand, npos, goldv)


def _shard_rc(arg):
    pid, seed, n, shard = arg
    acc = core.Acc(pid)
    texts = [t for t in all_texts() if t[0] in ("corpus", "grammar-duration")]

    def body(c):
        lines = []
        for idx, k, extra in c:
            origin, text, ts, _ = texts[idx % len(texts)]
            tl = [text]
            if extra:
                tl.append(texts[(idx + 1) % len(texts)][1])
            if all(gen.seq_stats(t)[1] <= 30 for t in tl):
                lines.append((ts, tl, k))
        if not lines:
            return
        fails, nlines = check_run_corpus(lines)
        case = {"run_corpus": [[ts.isoformat(), tl, k] for ts, tl, k in lines]}
        acc.case(("rc", json.dumps(case, sort_keys=True)), nontrivial=nlines >= 1,
                 cls=["run_corpus", "lines={}".format(min(nlines, 3))], sample=case)
        for b, d in fails:
            acc.fail(b, case, d)

    if shard == 0:
        # every hand-written grammar text once per candidate index (deterministic part)
        for idx, t in enumerate(texts):
            if t[0] == "grammar-duration":
                for k in range(6):
                    body([(idx, k, False)])
    strat = st.lists(st.tuples(st.integers(0, 10 ** 6), st.integers(0, 20), st.booleans()), min_size=1, max_size=3)
    core.hyp_run(strat, body, n, core.shard_seed(seed, shard, 5))
    return acc


# ---------------------------------------------------------------------------------
# (b) monotonicity


def check_mono(X, y, idx):
    core.load_repo()
    from ctparse import nb_scorer
    pos = [i for i, lab in enumerate(y) if lab]
    if not pos or len(set(y)) < 2 or not any(X):
        return None
    e = X[pos[idx % len(pos)]]
    prev = None
    series = []
    for k in range(0, 6):
        Xk = list(X) + [list(e)] * k
        yk = list(y) + [True] * k
        model = nb_scorer.train_naive_bayes(Xk, yk)
        neg, p = model.predict_log_proba([e])[0]
        lo = p - neg
        series.append(lo)
        if prev is not None and lo < prev - 1e-12:
            return [("score-decreases-after-adding-positive-copy", "example {} log-odds series {}".format(e, series))], e
        prev = lo
    return [], e


def _shard_b(arg):
    pid, seed, n, shard = arg
    acc = core.Acc(pid)

    def body(c):
        (X, y, _), idx = c
        r = check_mono(X, y, idx)
        if r is None:
            acc.notes["training-set-outside-domain"] += 1
            return
        fails, e = r
        acc.case(("mono", X, y, e), nontrivial=True, cls=["monotonicity", "example-empty" if not e else "example-nonempty"],
                 sample={"X": X[:4], "n_docs": len(X), "example": e})
        for b, d in fails:
            acc.fail(b, {"X": X, "y": y, "idx": idx}, d)

    core.hyp_run(st.tuples(corpus_strategy(), st.integers(0, 100)), body, n, core.shard_seed(seed, shard, 9))
    return acc


def run(ctx):
    n = 40000 if ctx.thorough else 3200
    shards = 16
    acc = core.pmap_acc(ctx.pid, _shard_a, [(ctx.pid, ctx.seed, n // shards, i) for i in range(shards)])
    nrc = 3200 if ctx.thorough else 320
    acc.merge(core.pmap_acc(ctx.pid, _shard_rc, [(ctx.pid, ctx.seed, nrc // shards, i) for i in range(shards)]))
    nb = 16000 if ctx.thorough else 1600
    acc.merge(core.pmap_acc(ctx.pid, _shard_b, [(ctx.pid, ctx.seed, nb // shards, i) for i in range(shards)]))
    return core.finish(ctx, acc, RULE, assumptions=[
        "timeout=0 for builder and reference run; work bound on candidate sequences",
        "run_corpus lines only contain texts for which the target is produced (it is documented to raise otherwise)",
        "monotonicity needs both classes present and is a theorem for Laplace-smoothed NB when no new n-gram appears"],
        shrinker=None)


def replay(case, bucket=None):
    if "run_corpus" in case:
        lines = [(core.parse_ts(ts), tl, k) for ts, tl, k in case["run_corpus"]]
        fails, _ = check_run_corpus(lines)
    elif "X" in case:
        r = check_mono(case["X"], case["y"], case["idx"])
        fails = r[0] if r else []
    else:
        ts = core.parse_ts(case["ts"])
        if case["mode"] == "batch":
            fails, _ = check_batch(case["text"], ts, [tuple(x) for x in case["batch"]], case["scorer"], case["depth"])
            return fails[0] if fails else None
        if case["mode"] == "dataset-gold":
            gold = None
            for o, t, tts, g in all_texts():
                if o == "dataset" and t == case["text"] and tts == ts:
                    gold = g
                    break
            if gold is None:
                return None
            fails, _ = check_dataset_entry(case["text"], ts, gold, case["scorer"], case["depth"])
        else:
            fails, _ = check_entry(case["text"], ts, case["mode"], case["k"], tuple(case["span"]), case["scorer"], case["depth"])
    return fails[0] if fails else None
