"""C09 Words around a time expression neither change its meaning nor blur its span."""
import datetime as dt
import json
import os
import re

from hypothesis import strategies as st

from .. import core, gen
from .. import grammar as G
from .. import oracle as O

RULE = ("Expressions from the bundled corpus, auto-corpus, dataset and the specification grammar (relative days, "
        "weekdays, days of month, day+month, parts of day, absolute dates, clock notations, ranges, durations) x "
        "prefix/suffix of 0-3 inert words x reference time of the corpus line or an edge date x latent on/off. "
        "Inert words: consonant-alphabet words and words that begin like a pattern tail (uhrzeit, thx, pmq, tagebuch..), "
        "accepted only if the library's own patterns match nothing in each word alone and in all context words "
        "together (otherwise re-drawn; rejection rate reported); contexts of 0-3 and of 8-14 words. Oracle (metamorphic): value(parse(prefix expr suffix)) = value(parse(expr)); "
        "span = span(parse(expr)) shifted by len(N(prefix))+1; the span text has no leading/trailing blank and "
        "lies inside the expression. Non-trivial = distinct embedded cases whose expression ends in a token whose "
        "pattern allows trailing blanks (weekday, named hour, number/unit, clock) and that has a suffix.")

ALPHA = "bcfgjklpqvwxz"
# words that BEGIN like the optional tail of some pattern (uhr, h, am/pm, ordinal suffixes, units) but that no
# pattern matches; which of them are really inert is decided at run time with the library's own patterns
# words that END like the optional first word of some multi-word pattern ('a quarter to', 'just now', 'genau jetzt')
HEAD_WORDS = ["pizza", "extra", "villa", "adjust", "bright", "ungenau", "gala", "umbra"]
TAIL_WORDS = ["uhrzeit", "uhrwerk", "hxq", "hzz", "thx", "stq", "ndq", "rdz", "terq", "pmq", "amq", "tagebuch", "hourly", "daysx",
              "mq", "wochenende", "oclockx", "nachtzug", "minutenx", "stundenplan", "monatlich", "weekly", "tenq", "oq", "pq"]
TRAILING_TOKEN = re.compile(r"(montag|monday|mon|dienstag|tuesday|tue|mittwoch|wednesday|wed|donnerstag|thursday|thu|freitag|"
                            r"friday|fri|samstag|saturday|sat|sonntag|sunday|sun|one|two|three|four|five|six|seven|eight|nine|"
                            r"ten|eleven|twelve|eins|zwei|drei|vier|fünf|sechs|sieben|acht|neun|zehn|elf|zwölf|days?|tage?|"
                            r"nights?|weeks?|months?|hours?|minutes?|uhr|h|\d|am|pm)s?\.?$", re.I)


def library_matches(text):
    """spans of all pattern matches on the cleaned text (library's own patterns; decides inertness)"""
    m = core.load_repo()
    import ctparse.rule as R
    t = m._preprocess_string(text)
    out = []
    for rid, rx in R._regex.items():
        for mm in rx.finditer(t, overlapped=True):
            a, b = mm.span("R{}".format(rid))
            out.append((a, b))
    return t, out


def inert_ok(prefix, expr, suffix):
    """The context words are inert iff the library's own patterns match nothing in them - each word alone and
    all of them together (the text without the expression).  Deciding it on the text WITH the expression
    would hide exactly the defects this property is about (a pattern tail swallowing the first letters of a
    neighbouring word)."""
    ctx = (prefix + " " + suffix).strip()
    if ctx:
        if library_matches(ctx)[1]:
            return None
        for w in ctx.split(" "):
            if library_matches(w)[1]:
                return None
    full = (prefix + " " if prefix else "") + expr + (" " + suffix if suffix else "")
    nexpr = O.N(expr)
    off = len(O.N(prefix)) + 1 if prefix else 0
    if O.N(full)[off:off + len(nexpr)] != nexpr:
        return None
    return full, off, nexpr


def check(expr, ts, prefix, suffix, latent):
    """-> ('skip', why) | ('ok', None) | ('fail', (bucket, detail))"""
    m = core.load_repo()
    emb = inert_ok(prefix, expr, suffix)
    if emb is None:
        return "redraw", None
    full, off, nexpr = emb
    try:
        alone = m.ctparse(expr, ts, timeout=0, latent_time=latent)
        inside = m.ctparse(full, ts, timeout=0, latent_time=latent)
    except Exception as e:
        return "fail", ("parse-raises(see C01):" + type(e).__name__, repr(e))
    if alone is None or alone.resolution is None:
        return "skip", "expression-not-recognised-alone"
    va = O.value(alone.resolution)
    where = ("prefix+suffix" if prefix and suffix else "prefix-only" if prefix else "suffix-only")
    if latent:
        # anchoring rewrites the value, never the span: compare with the un-anchored parse of the same text
        try:
            off_ = m.ctparse(expr, ts, timeout=0, latent_time=False)
        except Exception as e:
            return "fail", ("parse-raises(see C01):" + type(e).__name__, repr(e))
        if off_ is not None and off_.resolution is not None:
            vo = O.value(off_.resolution)
            same_clock = (vo[0] == "T" and va[0] == "T" and None in vo[1:4] and vo[4:6] == va[4:6]) or \
                (vo[0] == "I" and va[0] == "I" and vo[1] and vo[2] and va[1] and va[2] and None in vo[1][1:4]
                 and vo[1][4:6] == va[1][4:6] and vo[2][5] == va[2][5])
            if same_clock and (off_.resolution.mstart, off_.resolution.mend) != (alone.resolution.mstart, alone.resolution.mend):
                return "fail", ("latent-anchoring-changes-the-span", "{!r}: span {} with latent_time, {} without".format(
                    expr, (alone.resolution.mstart, alone.resolution.mend), (off_.resolution.mstart, off_.resolution.mend)))
    if inside is None or inside.resolution is None:
        return "fail", ("value-lost:" + where, "{!r} -> {} but {!r} -> nothing".format(expr, O.vstr(va), full))
    vi = O.value(inside.resolution)
    if vi != va:
        return "fail", ("value-changes:" + where, "{!r} -> {} but {!r} -> {}".format(expr, O.vstr(va), full, O.vstr(vi)))
    sa = (alone.resolution.mstart + off, alone.resolution.mend + off)
    si = (inside.resolution.mstart, inside.resolution.mend)
    nfull = O.N(full)
    seg = nfull[si[0]:si[1]]
    if si != sa:
        what = "span-includes-neighbour-or-blank" if (si[1] > off + len(nexpr) or si[0] < off or seg != seg.strip()) else "span-differs"
        return "fail", ("{}:{}{}".format(what, where, ":latent" if latent else ""),
                        "{!r} span {} (+{}) = {!r} but embedded {!r} span {} = {!r}".format(
                            expr, (alone.resolution.mstart, alone.resolution.mend), off, O.N(expr)[alone.resolution.mstart:alone.resolution.mend], full, si, seg))
    if seg != seg.strip() or si[0] < off or si[1] > off + len(nexpr):
        return "fail", ("span-not-tight:" + where, "{!r}: span {} = {!r}".format(full, si, seg))
    return "ok", None


_exprs = None


def expressions():
    global _exprs
    if _exprs is not None:
        return _exprs
    core.load_repo()
    out = []
    for t, ts, _ in gen.corpus_texts():
        out.append(("corpus", t, ts))
    from ctparse.time.auto_corpus import corpus as auto
    for target, ts, tests in auto:
        for t in tests:
            out.append(("auto_corpus", t, dt.datetime.strptime(ts, "%Y-%m-%dT%H:%M")))
    with open(os.path.join(core.REPO, "datasets", "timeparse_corpus.json"), encoding="utf-8") as fd:
        for e in json.load(fd):
            out.append(("dataset", e["text"], dt.datetime.strptime(e["ref_time"], "%Y-%m-%dT%H:%M:%S")))
    ref = dt.datetime(2021, 3, 10, 11, 20)
    gram = []
    gram += [f for _, _, f in G.rel_forms(all_weekday_spellings=False)]
    for wd in range(7):
        gram += G.WEEKDAY_FORMS[wd]
    for n in (1, 5, 13, 29, 31):
        gram += G.dom_forms(n)
    for d, mth in ((5, 10), (29, 2), (31, 12), (1, 1)):
        gram += G.doy_forms(d, mth)
    for forms in G.POD_FORMS.values():
        gram += forms
    gram += ["5.10.2021", "05.10.2021 14:30", "5 May 2021", "May 5th, 2021", "8:30", "8:30 pm", "20:15 Uhr", "8 Uhr", "acht uhr",
             "eight o'clock", "quarter past eight", "halb acht", "midnight", "2019", "8am", "8 am", "1530h", "tomorrow 9:00 - 17:00",
             "friday 9-5", "5.10.2021 - 8.10.2021", "vor 8 Uhr", "after friday", "3 days", "two weeks", "eine nacht", "half an hour",
             "5.10.2021 for 3 days", "next friday 8pm", "heute abend", "morgen früh", "monday morning", "on the 5th at 8", "9 to 5",
             "8-10", "22:00 - 2:00", "8pm", "noon", "12am", "friday", "sonntag", "drei", "2 nights",
             # date-less ranges whose span is wider than their two clock times (lead word, part of day)
             "abends 8-9", "in the evening between 8 and 9", "from 8pm to 9pm", "between 8:00 and 9:30", "von 8 bis 9 uhr",
             "zwischen 14 und 15 Uhr", "evening 8-10", "nachmittags 2 bis 4", "at 8pm", "um 20:15", "gegen 8 uhr", "around 8pm",
             "1430", "morgen 0930", "am 12.03. 1900", "tomorrow 0930 - 1045", "quarter to eight", "quarter past 8", "half past eight",
             "now", "jetzt", "right now", "half an hour", "an hour", "a day", "one week"]
    for g in gram:
        out.append(("grammar", g, ref))
    _exprs = out
    return out


def _shard(arg):
    pid, seed, n, shard = arg
    acc = core.Acc(pid)
    ex = expressions()
    byorigin = {}
    for e in ex:
        byorigin.setdefault(e[0], []).append(e)
    edges = O.edge_dates()
    tail_ok = [w for w in TAIL_WORDS + HEAD_WORDS if not library_matches(w)[1]] or ["qwv"]
    acc.notes["tail-words-inert-alone:" + ",".join(tail_ok)] += 1
    word = st.one_of(st.text(alphabet=ALPHA, min_size=3, max_size=7), st.text(alphabet=ALPHA, min_size=3, max_size=12),
                     st.text(alphabet=ALPHA, min_size=3, max_size=7), st.sampled_from(tail_ok))
    words = st.one_of(st.lists(word, min_size=0, max_size=3), st.lists(word, min_size=0, max_size=3),
                      st.lists(word, min_size=8, max_size=14)).map(" ".join)
    strat = st.tuples(st.sampled_from(sorted(byorigin)).flatmap(lambda o: st.sampled_from(byorigin[o])),
                      words, words, st.booleans(), st.one_of(st.none(), st.sampled_from(edges)), st.integers(0, 2))

    def body(c):
        (origin, expr, ts0), prefix, suffix, latent, edge, ti = c
        if not prefix and not suffix:
            suffix = "qwv"
        ts = ts0 if edge is None else dt.datetime.combine(edge, O.SWEEP_TIMES[ti])
        if "#" in expr or gen.seq_stats(expr)[1] > 300:
            acc.notes["skipped-label-or-too-many-sequences"] += 1
            return
        status, r = check(expr, ts, prefix, suffix, latent)
        if status == "redraw":
            acc.notes["words-not-inert-on-this-text(redrawn)"] += 1
            return
        if status == "skip":
            acc.notes[r] += 1
            return
        nt = bool(suffix) and bool(TRAILING_TOKEN.search(O.N(expr)))
        acc.case((expr, prefix, suffix, ts, latent), nontrivial=nt,
                 cls=[origin, "prefix+suffix" if prefix and suffix else "prefix-only" if prefix else "suffix-only",
                      "latent" if latent else "nolatent", "ends-in-trailing-blank-token" if nt else "other-ending"],
                 sample={"expr": expr, "prefix": prefix, "suffix": suffix, "ts": ts.isoformat(), "latent_time": latent})
        if r:
            acc.fail(r[0], {"expr": expr, "prefix": prefix, "suffix": suffix, "ts": ts.isoformat(), "latent": latent}, r[1])

    core.hyp_run(strat, body, n, core.shard_seed(seed, shard))
    return acc


def boundary_grid():
    """deterministic part: every head word in front of one expression per distinct (alphabetic) first token, every
    tail word behind one expression per distinct shape of the last token (digits abstracted) - the places where a
    pattern without a word boundary shows"""
    import re as _re
    first, last = {}, {}
    for o, e, ts in expressions():
        if "#" in e:
            continue
        t = O.N(e).lower().split(" ")
        if t[0][:1].isalpha():
            first.setdefault(t[0], (o, e, ts))
        last.setdefault(_re.sub(r"\d+", "d", t[-1]), (o, e, ts))
    items = []
    for k in sorted(first):
        for w in HEAD_WORDS:
            items.append(first[k] + (w, ""))
    for k in sorted(last):
        for w in TAIL_WORDS:
            items.append(last[k] + ("", w))
    return items


def _grid_shard(arg):
    pid, items = arg
    acc = core.Acc(pid)
    for i, (origin, expr, ts, prefix, suffix) in enumerate(items):
        if gen.seq_stats(expr)[1] > 300 or library_matches(prefix or suffix)[1]:
            acc.notes["grid-skipped(word not inert alone or too many sequences)"] += 1
            continue
        latent = bool(i % 2)
        status, r = check(expr, ts, prefix, suffix, latent)
        if status != "ok" and status != "fail":
            acc.notes["grid-" + (status if status == "redraw" else str(r))] += 1
            continue
        acc.case((expr, prefix, suffix, ts, latent), nontrivial=True, cls=["boundary-grid", "head-word" if prefix else "tail-word"],
                 sample={"expr": expr, "prefix": prefix, "suffix": suffix, "ts": ts.isoformat(), "latent_time": latent})
        if r:
            acc.fail(r[0], {"expr": expr, "prefix": prefix, "suffix": suffix, "ts": ts.isoformat(), "latent": latent}, r[1])
    return acc


def run(ctx):
    n = 120000 if ctx.thorough else int(os.environ.get("QAV_N", 6400))
    shards = 32 if ctx.thorough else 16
    acc = core.pmap_acc(ctx.pid, _shard, [(ctx.pid, ctx.seed, n // shards, i) for i in range(shards)])
    acc.merge(core.pmap_acc(ctx.pid, _grid_shard, [(ctx.pid, p) for p in core.chunks(boundary_grid(), 32)]))
    return core.finish(ctx, acc, RULE, assumptions=[
        "inertness is decided with the library's own patterns on each context word alone and on the context without the expression",
        "expressions that are not recognised alone are skipped (counted in notes); expressions containing '#' are C10's business",
        "default options otherwise, timeout=0"], shrinker=_shrink)


def _cands(case):
    for key in ("prefix", "suffix"):
        ws = case[key].split(" ") if case[key] else []
        for i in range(len(ws)):
            c = dict(case)
            c[key] = " ".join(ws[:i] + ws[i + 1:])
            if c["prefix"] or c["suffix"]:
                yield c
        if ws and ws != ["qwv"]:
            yield dict(case, **{key: "qwv"})
    if case["latent"]:
        yield dict(case, latent=False)


def _shrink(case, bucket):
    f = lambda c: (replay(c) or [None])[0]  # noqa
    c = core.greedy_shrink(case, f, _cands, budget=60)
    r = replay(c)
    return c, (r[1] if r else None)


def replay(case):
    status, r = check(case["expr"], core.parse_ts(case["ts"]), case["prefix"], case["suffix"], case["latent"])
    return r if status == "fail" else None
