"""C19 The rule base is structurally sound and the shipped model speaks its language."""
import ast
import datetime as dt
import itertools
import random
import os

from hypothesis import strategies as st

from .. import core, gen
from .. import grammar as G
from ..oracle import value

RULE = ("Enumerated: every @rule definition in the syntax tree of ctparse/time/rules.py vs the registry "
        "(unique names, bijection, registered wrapper wraps the function defined at that line, argument "
        "kinds match, no two adjacent patterns), pattern tables (_regex/_regex_str/_str_regex mutually "
        "inverse, every rule's pattern ids registered), every pattern x probe texts (empty string, "
        "bundled corpus, Hypothesis unicode/token-soup texts; overlapped search never returns a "
        "zero-length group), a firing witness for every rule (bundled corpus + pinned witness texts, "
        "counted by wrapping the registry), all modifier chains (very?, early|late in both languages "
        "to depth 3 on every part of day: direct application of the modifier production and through "
        "the parser) -> every part of day built is a key of pod_hours, every unigram of the shipped "
        "vocabulary is a pattern id or rule name. Non-trivial = distinct (check kind, object) "
        "obligations other than plain probe-text evaluations.")

WITNESS = {
    "ruleAtDOW": ["this friday", "am freitag", "on monday"],
    "ruleIntervalDuration": ["15.11.2020 - 16.11.2020 1 night", "15.-18.11.2020 3 days"],
    "ruleIntervalConjDuration": ["15.11.2020 - 16.11.2020 für 1 nacht", "15.11.2020 - 17.11.2020 for 2 days"],
    "ruleDurationInterval": ["3 days 15.11.2020 - 18.11.2020"],
    "ruleTimeDuration": ["tomorrow for 2 days"],
    "ruleBeforeYesterday": ["vorgestern"],
    "ruleAfterTomorrow": ["übermorgen"],
    "ruleEOY": ["EOY"],
    "ruleEOM": ["EOM"],
    "ruleDOWNextWeek": ["friday next week"],
    "ruleNextDOW": ["next friday"],
    "rulePODPOD": ["morning - evening"],
    "ruleHalfAfterHH": ["half past eight"],
    "ruleQuarterAfterHH": ["quarter past 8"],
    "ruleDateDOW": ["5.10.2020 monday"],
    "ruleDOWDOM": ["monday 5th"],
    "ruleDOMMonth2": ["5th of may"],
    "ruleDurationHalf": ["half an hour"],
    "ruleNamedNumberDuration": ["two days"],
    "ruleDigitDuration": ["2 days"],
}


# rules that fired when this check was written (for these, not firing any more is a violation; for a rule added later
# an unsuccessful witness search is inconclusive)
KNOWN_RULES = {
    'ruleAbsorbFromInterval', 'ruleAbsorbOnTime', 'ruleAfterTime', 'ruleAfterTomorrow', 'ruleAtDOW', 'ruleBeforeTime',
    'ruleBeforeYesterday', 'ruleDDMM', 'ruleDDMMYYYY', 'ruleDOM1', 'ruleDOM2', 'ruleDOMDate', 'ruleDOMMonth', 'ruleDOMMonth2',
    'ruleDOWDOM', 'ruleDOWDate', 'ruleDOWNextWeek', 'ruleDOWPOD', 'ruleDOYDate', 'ruleDOYYear', 'ruleDateDOM', 'ruleDateDOW',
    'ruleDateDate', 'ruleDateInterval', 'ruleDatePOD', 'ruleDateTOD', 'ruleDateTimeDateTime', 'ruleDigitDuration',
    'ruleDurationHalf', 'ruleDurationInterval', 'ruleEOM', 'ruleEOY', 'ruleEarlyLatePOD', 'ruleHHMM', 'ruleHHMMmilitary',
    'ruleHHOClock', 'ruleHalfAfterHH', 'ruleHalfBeforeHH', 'ruleIntervalConjDuration', 'ruleIntervalDuration', 'ruleLatentDOM',
    'ruleLatentDOW', 'ruleLatentDOY', 'ruleLatentPOD', 'ruleMMDD', 'ruleMidnight', 'ruleMonthDOM', 'ruleMonthOrdinal',
    'ruleNamedDOW', 'ruleNamedHour', 'ruleNamedMonth', 'ruleNamedNumberDuration', 'ruleNextDOW', 'ruleNow', 'rulePOD',
    'rulePODDate', 'rulePODInterval', 'rulePODPOD', 'rulePODTOD', 'ruleQuarterAfterHH', 'ruleQuarterBeforeHH', 'ruleTODDate',
    'ruleTODPOD', 'ruleTODTOD', 'ruleTimeDuration', 'ruleToday', 'ruleTomorrow', 'ruleYear', 'ruleYesterday'}


def _lib():
    core.load_repo()
    import ctparse.rule as R
    import ctparse.types as T
    return R, T


def ast_rules():
    """(name, first decorator line, argument kinds, file) of every function decorated with rule(...) in the library's
    source - the rule module and whatever modules it is split into"""
    out = []
    root = os.path.join(core.REPO, "ctparse")
    for dirpath, dirs, files in sorted(os.walk(root)):
        dirs[:] = sorted(d for d in dirs if d != "__pycache__")
        for fn in sorted(files):
            if not fn.endswith(".py"):
                continue
            path = os.path.join(dirpath, fn)
            with open(path, encoding="utf-8") as fd:
                try:
                    tree = ast.parse(fd.read())
                except SyntaxError:
                    continue
            for node in ast.walk(tree):
                if isinstance(node, ast.FunctionDef):
                    for d in node.decorator_list:
                        if isinstance(d, ast.Call) and getattr(d.func, "id", getattr(d.func, "attr", None)) == "rule":
                            kinds = []
                            for a in d.args:
                                if isinstance(a, ast.Call) and getattr(a.func, "id", getattr(a.func, "attr", None)) in ("predicate", "dimension"):
                                    kinds.append("pred")
                                else:
                                    kinds.append("pattern")
                            out.append((node.name, min(x.lineno for x in node.decorator_list), kinds, os.path.relpath(path, core.REPO)))
    return out


def wrapped_function(wrapper, name):
    for cell in (wrapper.__closure__ or ()):
        try:
            c = cell.cell_contents
        except ValueError:
            continue
        if callable(c) and getattr(c, "__name__", None) == name and hasattr(c, "__code__"):
            return c
    return None


def pred_id(p):
    if getattr(p, "__name__", "") != "_regex_match":
        return None
    for cell in (p.__closure__ or ()):
        c = cell.cell_contents
        if isinstance(c, int):
            return c
    return None


def structural(acc):
    R, T = _lib()
    rules = R.rules
    A = ast_rules()
    names = [n for n, _, _, _ in A]

    def ob(kind, obj, ok, detail=""):
        acc.case((kind, obj), nontrivial=True, cls="structural:" + kind, sample={"check": kind, "object": obj})
        if not ok:
            acc.fail("structural:" + kind, {"check": kind, "object": obj}, detail)

    dup = sorted({n for n in names if names.count(n) > 1})
    ob("rule-names-unique-in-source", "ctparse/**/*.py", not dup, "defined more than once: {}".format(dup))
    for n, line, kinds, srcfile in A:
        ok = n in rules
        ob("defined-rule-is-registered", n, ok, "rule {} (line {}) not in registry".format(n, line))
        if not ok:
            continue
        w, pats = rules[n]
        f = wrapped_function(w, n)
        if names.count(n) == 1:
            # co_firstlineno of a decorated function is the line of its first decorator
            if f is None:
                acc.notes["wrapped-function-not-introspectable(obligation skipped)"] += 1
            else:
                ob("registry-entry-wraps-this-definition", n,
                   f.__code__.co_firstlineno == line and os.path.realpath(f.__code__.co_filename) == os.path.realpath(os.path.join(core.REPO, srcfile)),
                   "registry entry for {} does not wrap the function defined at {} line {}".format(n, srcfile, line))
        regk = ["pattern" if getattr(p, "__name__", "") == "_regex_match" else "pred" for p in pats]
        ob("argument-kinds-match-source", n, regk == kinds, "source {} registry {}".format(kinds, regk))
        adj = any(a == "pattern" and b == "pattern" for a, b in zip(kinds, kinds[1:])) or \
            any(a == "pattern" and b == "pattern" for a, b in zip(regk, regk[1:]))
        ob("no-adjacent-patterns", n, not adj, "kinds {}".format(kinds))
        for p in pats:
            i = pred_id(p)
            if getattr(p, "__name__", "") == "_regex_match":
                ob("rule-pattern-id-registered", "{}:{}".format(n, i), i in R._regex and i in R._regex_str,
                   "rule {} refers to pattern id {} which is not registered".format(n, i))
    for n in rules:
        ob("registered-rule-is-defined", n, n in names, "registry has {} which no module of the library defines with @rule".format(n))
    # pattern tables
    ob("regex-tables-same-ids", "_regex/_regex_str", set(R._regex) == set(R._regex_str),
       "{} vs {}".format(sorted(R._regex), sorted(R._regex_str)))
    inv = {v: k for k, v in R._regex_str.items()}
    ob("identical-pattern-text-shares-one-id", "_regex_str", len(inv) == len(R._regex_str),
       "duplicate pattern texts under different ids")
    ob("str-regex-is-inverse", "_str_regex", dict(R._str_regex) == inv, "tables are not mutually inverse")
    used = {pred_id(p) for _, pats in rules.values() for p in pats} - {None}
    for i in sorted(R._regex):
        ob("pattern-used-by-a-rule", i, i in used, "pattern id {} is used by no rule".format(i))
        src = R._regex_str[i]
        ob("compiled-pattern-has-its-own-group", i, "R{}".format(i) in R._regex[i].groupindex and src in R._regex[i].pattern,
           "compiled pattern {} does not carry text/group of id".format(i))
        ob("pattern-rejects-empty-string", i, R._regex[i].match("") is None and R._regex[i].search("") is None, "matches ''")
    return A


def probe_patterns(acc, texts, origin):
    R, T = _lib()
    for t in texts:
        for i, rx in R._regex.items():
            key = "R{}".format(i)
            n = 0
            bad = None
            for mm in rx.finditer(t, overlapped=True):
                n += 1
                a, b = mm.span(key)
                if b - a <= 0:
                    bad = (a, b)
                    break
            if bad:
                acc.fail("zero-length-match:pattern-{}".format(i), {"probe": t, "pattern": i},
                         "pattern {} ({!r}) yields span {} on {!r}".format(i, R._regex_str[i][:60], bad, t))
        acc.case(("probe", t), nontrivial=False, cls="probe:" + origin, sample={"probe": t})


def firing(acc, thorough):
    R, T = _lib()
    m = core.load_repo()
    from ctparse.scorer import DummyScorer
    fired = {}
    orig = dict(R.rules)

    def mk(name, w):
        def cw(ts, *args):
            res = w(ts, *args)
            if res is not None and name not in fired:
                fired[name] = True
            return res
        return cw

    try:
        for n, (w, pats) in orig.items():
            R.rules[n] = (mk(n, w), pats)
        texts = [(t, ts) for t, ts, _ in gen.corpus_texts()]
        step = 1 if thorough else 3
        for i, (t, ts) in enumerate(texts):
            if i % step:
                continue
            if gen.seq_stats(t)[1] > 60:
                continue
            list(m.ctparse_gen(t, ts, timeout=0, max_stack_depth=0, scorer=DummyScorer(), latent_time=False))
        # rules the sampled part did not reach: the rest of the corpus decides (the verdict must not depend on
        # which corpus entries the sample happens to hold)
        for i, (t, ts) in enumerate(texts):
            if len(fired) == len(orig):
                break
            if i % step == 0 or gen.seq_stats(t)[1] > 60:
                continue
            list(m.ctparse_gen(t, ts, timeout=0, max_stack_depth=0, scorer=DummyScorer(), latent_time=False))
        wit_used = {}
        fired_before_search = None
        for n in orig:
            if n in fired:
                continue
            for t in WITNESS.get(n, []):
                list(m.ctparse_gen(t, dt.datetime(2020, 11, 3, 12, 0), timeout=0, max_stack_depth=0,
                                   scorer=DummyScorer(), latent_time=False))
                if n in fired:
                    wit_used[n] = t
                    break
        # last resort for rules neither the corpus nor the witness table reaches (e.g. a rule added after this
        # check was written): two-token texts over the whole token vocabulary
        searched = 0
        fired_before_search = set(fired)
        if len(fired) < len(orig):
            toks = sorted({t for p in gen.POOLS for t in p if t.strip()})
            rnd = random.Random(19)
            pairs = [(a, b) for a in toks for b in toks]
            rnd.shuffle(pairs)
            for a, b in pairs[:60000]:
                if len(fired) == len(orig):
                    break
                searched += 1
                t = a + " " + b
                if gen.seq_stats(t)[1] > 60:
                    continue
                try:
                    list(m.ctparse_gen(t, dt.datetime(2020, 11, 3, 12, 0), timeout=0, max_stack_depth=0,
                                       scorer=DummyScorer(), latent_time=False))
                except Exception:
                    pass  # totality is C01's business
                for n in orig:
                    if n in fired and n not in wit_used and n not in fired_before_search:
                        wit_used[n] = t
            acc.notes["two-token-witness-search-texts"] += searched
    finally:
        for n, v in orig.items():
            R.rules[n] = v
        for n in list(R.rules):
            if n not in orig:
                del R.rules[n]
    for n in orig:
        acc.case(("fires", n), nontrivial=True, cls="rule-can-fire:" + ("witness-table" if n in wit_used else "corpus"),
                 sample={"check": "rule-can-fire", "rule": n, "witness": wit_used.get(n, "bundled corpus")})
        if n not in fired:
            if n not in KNOWN_RULES:
                # a rule this check has never seen fire: the search for a witness is incomplete, no verdict
                acc.notes["no-witness-found-for-rule-unknown-to-the-check:" + n] += 1
                acc.inconclusive += 1
                continue
            acc.fail("rule-never-fires", {"check": "rule-can-fire", "object": n},
                     "no corpus expression, no witness text and no two-token text makes {} produce a value".format(n))


MODS_EARLY = ["early", "früh", "früher", "frühen", "frühem"]
MODS_LATE = ["late", "spät", "später", "späten", "spätem"]
VERY = ["", "very ", "sehr "]


def modifier_chains(acc, thorough):
    R, T = _lib()
    m = core.load_repo()
    pods = T.pod_hours
    # base parts of day: the frozen grammar's keys, plus the library's own table where it still has that shape
    base = [b for b in G.POD_FORMS if b in pods]
    try:
        for p, _ in __import__("ctparse.time.rules", fromlist=["_pods"])._pods:
            if p not in base:
                base.append(p)
    except Exception:
        acc.notes["private-table-_pods-not-readable(frozen list used)"] += 1
    # id of the modifier pattern = the pattern predicate of ruleEarlyLatePOD
    w, pats = R.rules["ruleEarlyLatePOD"]
    pid = pred_id(pats[0])
    rx = R._regex[pid]
    forms = [v + x for v in VERY for x in (MODS_EARLY[:2] + MODS_LATE[:2] if not thorough else MODS_EARLY + MODS_LATE)]
    ts = dt.datetime(2020, 3, 4, 12, 0)
    # direct application to depth 3
    frontier = {(b,): T.Time(POD=b) for b in base}
    for depth in range(1, 4):
        nxt = {}
        for chain, tv in frontier.items():
            for f in forms:
                mm = rx.fullmatch(f)
                if mm is None:
                    raise core.HarnessError("modifier form {!r} is not matched by the modifier pattern".format(f))
                rm = T.RegexMatch(pid, mm)
                try:
                    res = w(ts, rm, tv)
                except Exception as e:
                    acc.fail("modifier-chain-raises:" + type(e).__name__, {"chain": list(chain) + [f]}, repr(e))
                    res = None
                key = chain + (f,)
                acc.case(("chain", key), nontrivial=True, cls="modifier-chain-depth-{}".format(depth),
                         sample={"check": "modifier-chain", "chain": list(key), "result": None if res is None else res.POD})
                if res is not None:
                    if res.POD not in pods:
                        acc.fail("modifier-chain-builds-unknown-part-of-day", {"chain": list(key)},
                                 "{} -> {!r} not in pod_hours".format(key, res.POD))
                    else:
                        nxt[key] = res
        # keep the frontier small: one representative per distinct POD
        seen = {}
        for k, v in nxt.items():
            seen.setdefault(v.POD, (k, v))
        frontier = {k: v for k, v in seen.values()}
    # through the parser
    words = {"morning": "morning", "evening": "evening", "night": "night", "afternoon": "nachmittag", "noon": "noon"}
    mods = ["early", "late", "very early", "very late", "sehr früh", "spät"]
    for pod, word in words.items():
        for n in (1, 2, 3):
            for combo in itertools.product(mods, repeat=n):
                if n == 3 and not thorough and (hash_det(combo) % 4):
                    continue
                text = " ".join(combo) + " " + word
                try:
                    cands = [c for c in m.ctparse_gen(text, ts, timeout=0, latent_time=False) if c]
                except Exception as e:
                    acc.fail("modifier-text-raises:" + type(e).__name__, {"text": text}, repr(e))
                    continue
                bad = [c for c in cands for tv in _times(c.resolution) if tv.POD is not None and tv.POD not in pods]
                acc.case(("modtext", text), nontrivial=True, cls="modifier-text-depth-{}".format(n),
                         sample={"check": "modifier-text", "text": text, "candidates": len(cands)})
                if bad:
                    acc.fail("parser-builds-unknown-part-of-day", {"text": text}, repr(bad[0].resolution))


def hash_det(x):
    return int.from_bytes(core.jhash(x)[:4], "big")


def _times(r):
    n = type(r).__name__
    if n == "Time":
        return [r]
    if n == "Interval":
        return [t for t in (r.t_from, r.t_to) if t is not None]
    return []


def vocabulary(acc):
    R, T = _lib()
    m = core.load_repo()
    from ctparse.nb_scorer import NaiveBayesScorer
    sc = core.default_scorer()
    if not isinstance(sc, NaiveBayesScorer):
        raise core.HarnessError("shipped model not loaded")
    vocab = core.scorer_model(sc).transformer.vocabulary
    known = {str(i) for i in R._regex} | set(R.rules)
    for tok in sorted(vocab):
        parts = tok.split(" ")
        uni = len(parts) == 1
        bad = [p for p in parts if p not in known]
        if uni:
            acc.case(("vocab", tok), nontrivial=True, cls="vocabulary-unigram", sample={"check": "vocabulary", "token": tok})
        else:
            acc.case(("vocab", tok), nontrivial=False, cls="vocabulary-ngram")
        if bad:
            acc.fail("vocabulary-token-unknown:" + ("unigram" if uni else "ngram"), {"token": tok},
                     "{!r}: {} name(s) neither a pattern id nor a rule".format(tok, bad))


def _probe_shard(arg):
    pid, seed, n, shard = arg
    acc = core.Acc(pid)
    texts = []
    core.hyp_run(gen.text_strategy(), texts.append, n, core.shard_seed(seed, shard))
    probe_patterns(acc, texts, "generated")
    return acc


def _probe_corpus(arg):
    pid, part = arg
    acc = core.Acc(pid)
    probe_patterns(acc, part, "corpus")
    return acc


def run(ctx):
    acc = core.Acc(ctx.pid)
    structural(acc)
    vocabulary(acc)
    modifier_chains(acc, ctx.thorough)
    firing(acc, ctx.thorough)
    n = 48000 if ctx.thorough else 3200
    acc.merge(core.pmap_acc(ctx.pid, _probe_shard, [(ctx.pid, ctx.seed, n // 16, i) for i in range(16)]))
    ctexts = ["", " ", "a", "0", "."] + [t for t, _, _ in gen.corpus_texts()]
    acc.merge(core.pmap_acc(ctx.pid, _probe_corpus, [(ctx.pid, p) for p in core.chunks(ctexts, 16)]))
    return core.finish(ctx, acc, RULE, exhaustive=False, assumptions=[
        "structural part, vocabulary and modifier chains (direct application, one representative per distinct part of day per level) are enumerated completely; probe texts are sampled",
        "a rule 'can fire' if its registered production returns a value on at least one bundled corpus expression or pinned witness text"])


def replay(case):
    acc = core.Acc("C19")
    if "probe" in case:
        probe_patterns(acc, [case["probe"]], "replay")
    elif "chain" in case:
        R, T = _lib()
        w, pats = R.rules["ruleEarlyLatePOD"]
        pid = pred_id(pats[0])
        tv = T.Time(POD=case["chain"][0])
        for f in case["chain"][1:]:
            mm = R._regex[pid].fullmatch(f)
            if mm is None:
                return None
            try:
                tv = w(dt.datetime(2020, 3, 4, 12, 0), T.RegexMatch(pid, mm), tv)
            except Exception as e:
                return ("modifier-chain-raises:" + type(e).__name__, repr(e))
            if tv is None:
                return None
            if tv.POD not in T.pod_hours:
                return ("modifier-chain-builds-unknown-part-of-day", "{} -> {!r}".format(case["chain"], tv.POD))
        return None
    elif "text" in case:
        R, T = _lib()
        m = core.load_repo()
        try:
            cands = [c for c in m.ctparse_gen(case["text"], dt.datetime(2020, 3, 4, 12, 0), timeout=0, latent_time=False) if c]
        except Exception as e:
            return ("modifier-text-raises:" + type(e).__name__, repr(e))
        bad = [c for c in cands for tv in _times(c.resolution) if tv.POD is not None and tv.POD not in T.pod_hours]
        return ("parser-builds-unknown-part-of-day", repr(bad[0].resolution)) if bad else None
    elif "token" in case:
        vocabulary(acc)
    elif case.get("check") == "rule-can-fire":
        firing(acc, True)
    else:
        structural(acc)
    for b, lst in acc.failures.items():
        for c, d in lst:
            if all(c.get(k) == v for k, v in case.items() if k in ("object", "probe", "token", "text", "chain", "pattern")):
                return (b, d)
    return None
