"""C11 Separators, brackets, dash variants and letter case never change the result."""
import datetime as dt
import sys
import unicodedata

from hypothesis import strategies as st

from .. import core, gen
from ..oracle import N, is_dash, is_sep, value

RULE = ("(a) function level, exhaustive: every code point assigned in Python's unicodedata (incl. "
        "private use and surrogates) in the contexts a<c>b, <c>a, a<c>, <c>: _preprocess_string must equal "
        "the reference normaliser N (unicodedata categories Z*, C*, Ps, Pe, ',', ';' -> one blank; Pd and "
        "U+2043 -> '-'; strip); Hypothesis strings over separator/dash/letter alphabets: equality with N "
        "and idempotence. (b) parse level: bundled corpus and grammar expressions with blanks replaced "
        "by generated separator runs, leading/trailing runs, '-' replaced by every Pd character/U+2043, "
        "upper/lower/title/swapped case: value of the returned resolution and the multiset of candidate "
        "values must equal those of the original. Non-trivial = distinct code points that are "
        "separators or dashes (a), distinct variants differing from the original in a non-ASCII "
        "separator/dash or in the case of a letter (b).")

SEP_SAMPLE = [" ", " ", "\t", "\n", "\r", " ", " ", " ", " ", "​", "　", "﻿", ",", ";", "(", ")", "[", "]", "{", "}",
              "（", "）", "「", "」", "\x00", "\x1f", "\x7f", "­"]
DASHES = [chr(c) for c in range(sys.maxunicode + 1) if unicodedata.category(chr(c)) == "Pd"] + ["⁃"]


def P(text):
    m = core.load_repo()
    return m._preprocess_string(text)


def _cp_shard(arg):
    pid, lo, hi = arg
    acc = core.Acc(pid)
    skipped = 0
    for cp in range(lo, hi):
        c = chr(cp)
        cat = unicodedata.category(c)
        if cat == "Cn":
            skipped += 1
            continue
        special = is_sep(c) or is_dash(c)
        bad = None
        for ctxname, t in (("a<c>b", "a" + c + "b"), ("<c>a", c + "a"), ("a<c>", "a" + c), ("<c>", c)):
            try:
                got = P(t)
            except Exception as e:
                bad = ("normaliser-raises:" + type(e).__name__, "U+{:04X} in {}: {!r}".format(cp, ctxname, e))
                break
            exp = N(t)
            if got != exp:
                bad = ("codepoint-normalised-wrongly:cat-{}".format(cat),
                       "U+{:04X} ({}) in context {}: library {!r} reference {!r}".format(cp, cat, ctxname, got, exp))
                break
        acc.n += 1
        acc.classes["codepoint:" + ("separator" if is_sep(c) else "dash" if is_dash(c) else "other")] += 1
        if special:
            acc.nt.add(core.jhash(("cp", cp)))
        if cp % 9973 == 0 or (special and cp % 37 == 0):
            acc.case(("cps", cp), False, sample={"codepoint": "U+{:04X}".format(cp), "category": cat})
            acc.n -= 1
        if bad:
            acc.fail(bad[0], {"codepoint": cp}, bad[1])
    acc.notes["codepoints-unassigned-in-unicodedata-skipped"] += skipped
    return acc


def _fn_shard(arg):
    pid, seed, n, shard = arg
    acc = core.Acc(pid)
    alpha = st.one_of(st.sampled_from(SEP_SAMPLE), st.sampled_from(DASHES), st.sampled_from(list("ab1-.:#")),
                      st.characters(exclude_categories=("Cn",)))

    def body(t):
        try:
            got = P(t)
            twice = P(got)
        except Exception as e:
            acc.fail("normaliser-raises:" + type(e).__name__, {"string": t}, repr(e))
            return
        exp = N(t)
        nt = any((is_sep(c) or is_dash(c)) and ord(c) > 127 for c in t)
        acc.case(("fn", t), nontrivial=nt, cls=["function-level-string", "has-nonascii-sep-or-dash" if nt else "ascii-only"],
                 sample={"string": t, "normalised": got})
        if got != exp:
            acc.fail("string-normalised-wrongly", {"string": t}, "library {!r} reference {!r}".format(got, exp))
        if twice != got:
            acc.fail("normaliser-not-idempotent", {"string": t}, "P(x)={!r} P(P(x))={!r}".format(got, twice))

    core.hyp_run(st.text(alphabet=alpha, max_size=12), body, n, core.shard_seed(seed, shard))
    # long runs of separators / dashes between two words (a bounded quantifier would leave more than one blank)
    rep = lambda pool, hi: st.builds(lambda k, xs: "".join(xs[i % len(xs)] for i in range(k)), st.integers(1, hi),  # noqa
                                     st.lists(st.sampled_from(pool), min_size=1, max_size=5))
    seprun = rep(SEP_SAMPLE, 130)
    dashrun = rep(DASHES, 80)
    long_s = st.builds(lambda a, r1, b, r2, c: a + r1 + b + r2 + c, st.sampled_from(["", "a", "8"]), st.one_of(seprun, dashrun),
                       st.sampled_from(["b", "10", "x1"]), st.one_of(seprun, dashrun, st.just("")), st.sampled_from(["", "c"]))
    core.hyp_run(long_s, body, max(50, n // 8), core.shard_seed(seed, shard, 7))
    return acc


# ---------------------------------------------------------------------------------
# parse level

GRAMMAR_EXPR = ["tomorrow 8-10 uhr", "friday 9-5", "5.10.2020 - 8.10.2020", "May 5th 2020 8:30 pm",
                "übermorgen um halb acht", "dreißig tage", "nächsten freitag", "from 9 to 17", "8 - 10 h",
                "monday morning", "very early morning", "zwölf uhr mittags", "12-12-2020", "feb-20",
                "between 8:00 and 9:00", "heute für zwei nächte", "1st of june", "quarter past eight",
                "vor 8 uhr", "not before friday", "sonntag nachmittag", "märz 3", "EOM", "jahresende",
                # am/pm markers (their letter case is looked at by the rule body, not only by the pattern)
                "12am", "12 am", "12:30 am", "12 a.m.", "tomorrow 12am", "12pm", "12:15 pm", "8 pm", "8:30pm", "11 a.m.", "0:30 am",
                "5.3 pm", "7.5 pm", "from 5.3 pm", "5.3pm", "13.06 am nachmittag", "10.12 pm", "8.11am", "am 7.5 pm",
                # letters whose case mapping changes the length of the text (ß -> SS) in front of / inside the expression
                "fußball morgen 17 uhr", "groß 8 uhr abends", "straße 5.10. 8h", "weiß friday 9-5", "dreißig tage", "einunddreißig tage",
                "friday 12am - 3am", "heute 12 am", "1530h", "8 uhr abends", "halb acht", "viertel nach zwölf", "Mitternacht"]


def observe(text, ts):
    m = core.load_repo()
    r = m.ctparse(text, ts, timeout=0)
    cands = sorted(repr(value(c.resolution)) for c in m.ctparse_gen(text, ts, timeout=0) if c)
    return (value(r.resolution) if r else None), cands


def variant(text, ops):
    """ops: list of (kind, pos, payload)"""
    t = text
    changed = set()
    for kind, pos, payload in ops:
        if kind == "sep":
            idx = [i for i, c in enumerate(t) if c == " "]
            if idx:
                i = idx[pos % len(idx)]
                t = t[:i] + payload + t[i + 1:]
                changed.add("sep-nonascii" if any(ord(c) > 127 for c in payload) else "sep-ascii")
        elif kind == "dash":
            idx = [i for i, c in enumerate(t) if c == "-"]
            if idx:
                i = idx[pos % len(idx)]
                t = t[:i] + payload + t[i + 1:]
                changed.add("dash")
        elif kind == "lead":
            t = payload + t
            changed.add("lead")
        elif kind == "trail":
            t = t + payload
            changed.add("trail")
        elif kind == "case":
            new = {"upper": t.upper(), "lower": t.lower(), "title": t.title(), "swap": t.swapcase()}[payload]
            if new != t:
                changed.add("case-" + payload)
            t = new
    return t, changed


def check_variant(text, ts, ops):
    v, changed = variant(text, ops)
    if v == text or not changed:
        return None
    try:
        o0, c0 = observe(text, ts)
        o1, c1 = observe(v, ts)
    except Exception as e:
        return v, changed, [("parse-raises(see C01):" + type(e).__name__, repr(e))]
    fails = []
    kinds = "+".join(sorted(changed))
    if o0 != o1:
        fails.append(("resolution-changes-under:" + kinds, "{!r} -> {} but {!r} -> {}".format(text, o0, v, o1)))
    elif c0 != c1:
        fails.append(("candidate-set-changes-under:" + kinds, "{!r}: {} vs {!r}: {}".format(text, c0[:5], v, c1[:5])))
    return v, changed, fails


def _parse_shard(arg):
    pid, seed, n, shard = arg
    acc = core.Acc(pid)
    texts = [(t, ts) for t, ts, _ in gen.corpus_texts()] + [(t, dt.datetime(2020, 3, 4, 12, 43)) for t in GRAMMAR_EXPR]
    seprun = st.lists(st.sampled_from(SEP_SAMPLE), min_size=1, max_size=3).map("".join)
    op = st.one_of(st.tuples(st.just("sep"), st.integers(0, 20), seprun),
                   st.tuples(st.just("dash"), st.integers(0, 5), st.lists(st.sampled_from(DASHES), min_size=1, max_size=2).map("".join)),
                   st.tuples(st.just("lead"), st.just(0), seprun),
                   st.tuples(st.just("trail"), st.just(0), seprun),
                   st.tuples(st.just("case"), st.just(0), st.sampled_from(["upper", "lower", "title", "swap"])))

    def body(c):
        idx, ops = c
        text, ts = texts[idx % len(texts)]
        if gen.seq_stats(text)[1] > 300:
            acc.notes["skipped-too-many-sequences"] += 1
            return
        r = check_variant(text, ts, ops)
        if r is None:
            acc.notes["variant-identical-to-original"] += 1
            return
        v, changed, fails = r
        nt = bool(changed & {"sep-nonascii", "dash"}) or any(x.startswith("case-") for x in changed)
        acc.case(("variant", text, v), nontrivial=nt, cls=["parse-level"] + sorted(changed),
                 sample={"text": text, "variant": v, "ts": ts.isoformat()})
        for b, d in fails:
            acc.fail(b, {"text": text, "ts": ts.isoformat(), "ops": [list(o) for o in ops]}, d)

    core.hyp_run(st.tuples(st.integers(0, 10 ** 6), st.lists(op, min_size=1, max_size=3)), body, n,
                 core.shard_seed(seed, shard))
    return acc


def _dash_all(arg):
    """every dash character once, in a clock range and a date range"""
    pid, part = arg
    acc = core.Acc(pid)
    ts = dt.datetime(2020, 3, 4, 12, 43)
    for d in part:
        for text in ("tomorrow 8-10 uhr", "5.10.2020 - 8.10.2020", "12-12-2020"):
            ops = [("dash", 0, d)]
            r = check_variant(text, ts, ops)
            if r is None:
                continue
            v, changed, fails = r
            acc.case(("dashall", text, d), nontrivial=True, cls=["parse-level", "every-dash"],
                     sample={"text": text, "variant": v})
            for b, dd in fails:
                acc.fail(b, {"text": text, "ts": ts.isoformat(), "ops": [list(o) for o in ops]}, dd)
    return acc


def _case_all(arg):
    """every grammar expression x every case variant, original first (the order matters for history effects)"""
    pid, part = arg
    acc = core.Acc(pid)
    ts = dt.datetime(2020, 2, 25, 12, 43)
    for text in part:
        for kind in ("upper", "title", "swap", "lower"):
            ops = [("case", 0, kind)]
            r = check_variant(text, ts, ops)
            if r is None:
                continue
            v, changed, fails = r
            acc.case(("caseall", text, kind), nontrivial=True, cls=["parse-level", "every-case-variant-of-grammar-expressions"],
                     sample={"text": text, "variant": v})
            for b, d in fails:
                acc.fail(b, {"text": text, "ts": ts.isoformat(), "ops": [list(o) for o in ops]}, d)
    return acc


def run(ctx):
    hi = sys.maxunicode + 1
    step = hi // 64 + 1
    acc = core.pmap_acc(ctx.pid, _cp_shard, [(ctx.pid, lo, min(hi, lo + step)) for lo in range(0, hi, step)])
    exhaustive_a = True
    n = 64000 if ctx.thorough else 8000
    acc.merge(core.pmap_acc(ctx.pid, _fn_shard, [(ctx.pid, ctx.seed, n // 16, i) for i in range(16)]))
    n = 48000 if ctx.thorough else 2400
    acc.merge(core.pmap_acc(ctx.pid, _parse_shard, [(ctx.pid, ctx.seed, n // 16, i) for i in range(16)]))
    acc.merge(core.pmap_acc(ctx.pid, _dash_all, [(ctx.pid, p) for p in core.chunks(DASHES, 8)]))
    acc.merge(core.pmap_acc(ctx.pid, _case_all, [(ctx.pid, p) for p in core.chunks(GRAMMAR_EXPR, 16)]))
    return core.finish(ctx, acc, RULE, exhaustive=False, assumptions=[
        "'assigned' = category != Cn in this Python's unicodedata ({}); code points only a newer Unicode database knows are skipped and counted in notes".format(unicodedata.unidata_version),
        "the function-level sweep over single code points is complete (exhaustive for that sub-domain); strings and parse-level variants are sampled"],
        extra={"exhaustive_subdomains": ["single assigned code point x 4 contexts", "every Pd character/U+2043 as range dash in 3 texts"]})


def replay(case):
    if "codepoint" in case:
        a = _cp_shard(("C11", case["codepoint"], case["codepoint"] + 1))
        for b, lst in a.failures.items():
            return (b, lst[0][1])
        return None
    if "string" in case:
        t = case["string"]
        got = P(t)
        if got != N(t):
            return ("string-normalised-wrongly", "library {!r} reference {!r}".format(got, N(t)))
        if P(got) != got:
            return ("normaliser-not-idempotent", "{!r}".format(got))
        return None
    r = check_variant(case["text"], core.parse_ts(case["ts"]), [tuple(o) for o in case["ops"]])
    if r and r[2]:
        return r[2][0]
    return None
