"""C18 Resolutions compare, hash and print by value; the printed form round-trips."""
import json
import os

from hypothesis import strategies as st

from .. import core
from ..oracle import value

RULE = ("Hypothesis-generated pairs (a, b) of Time/Interval/Duration with random spans: b is a "
        "span-only copy, a single-field edit, an independent draw or of another kind; plus every "
        "gold string of datasets/timeparse_corpus.json. Oracle: a==b <=> same kind and equal field "
        "tuples; equal => equal hash; nb_str equal <=> equal values; parse_nb_string(nb_str(x)) "
        "has x's field tuple; a value that was hashed/printed/parsed and is then edited in place (also through an interval's end object) behaves by its new value, and parsing the same text again is unaffected by edits of an earlier result. Non-trivial = distinct pair that is a span-only copy or a "
        "single-field edit (the cases that separate value semantics from span/identity semantics).")


def _types():
    core.load_repo()
    import ctparse.types as t
    import ctparse.corpus as c

    return t, c


def build(spec):
    """spec is a json-able description -> library object"""
    t, _ = _types()
    k = spec[0]
    if k == "T":
        y, mo, d, h, mi, dow, pod, ms, me = spec[1:]
        x = t.Time(year=y, month=mo, day=d, hour=h, minute=mi, DOW=dow, POD=pod)
        x.mstart, x.mend = ms, me
        return x
    if k == "I":
        a = build(spec[1]) if spec[1] is not None else None
        b = build(spec[2]) if spec[2] is not None else None
        x = t.Interval(t_from=a, t_to=b)
        x.mstart, x.mend = spec[3], spec[4]
        return x
    if k == "D":
        x = t.Duration(spec[1], t.DurationUnit(spec[2]))
        x.mstart, x.mend = spec[3], spec[4]
        return x
    raise core.HarnessError("bad spec {!r}".format(spec))


def spec_value(spec):
    """value tuple computed from the spec alone (never from the library object)"""
    k = spec[0]
    if k == "T":
        return ("T",) + tuple(spec[1:8])
    if k == "I":
        return ("I", spec_value(spec[1]) if spec[1] is not None else None,
                spec_value(spec[2]) if spec[2] is not None else None)
    return ("D", spec[1], spec[2])


def strategies():
    t, _ = _types()
    pods = sorted(t.pod_hours.keys())
    units = [u.value for u in t.DurationUnit]
    opt = lambda s: st.one_of(st.none(), s)  # noqa
    spans = st.integers(0, 60)
    time_s = st.tuples(st.just("T"), opt(st.integers(1, 9999)), opt(st.integers(1, 12)),
                       opt(st.integers(1, 31)), opt(st.integers(0, 23)), opt(st.integers(0, 59)),
                       opt(st.integers(0, 6)), opt(st.sampled_from(pods)), spans, spans)
    # bias: small pool values so that independent draws collide sometimes
    time_small = st.tuples(st.just("T"), opt(st.sampled_from([2019, 2020])), opt(st.sampled_from([1, 2])),
                           opt(st.sampled_from([1, 2])), opt(st.sampled_from([0, 1])),
                           opt(st.sampled_from([0, 1])), opt(st.sampled_from([0, 1])),
                           opt(st.sampled_from(pods[:2])), spans, spans)
    tm = st.one_of(time_s, time_small)
    interval_s = st.tuples(st.just("I"), opt(tm), opt(tm), spans, spans)
    dur_s = st.tuples(st.just("D"), st.one_of(st.integers(0, 10000), st.integers(0, 3)),
                      st.sampled_from(units), spans, spans)
    any_s = st.one_of(tm, interval_s, dur_s)
    return any_s, pods, units


def edits(spec, pods, units):
    """all single-field edits of spec (each must change the value)"""
    out = []
    k = spec[0]
    if k == "T":
        alts = {1: [None, 1999, 2020, 2021], 2: [None, 1, 2, 12], 3: [None, 1, 2, 31],
                4: [None, 0, 1, 12, 23], 5: [None, 0, 1, 59], 6: [None, 0, 1, 6],
                7: [None, pods[0], pods[1], pods[-1]]}
        for i, vals in alts.items():
            for v in vals:
                if v != spec[i]:
                    s = list(spec)
                    s[i] = v
                    out.append(tuple(s))
    elif k == "I":
        for i in (1, 2):
            if spec[i] is None:
                s = list(spec)
                s[i] = ("T", 2020, 1, 1, None, None, None, None, 0, 0)
                out.append(tuple(s))
            else:
                s = list(spec)
                s[i] = None
                out.append(tuple(s))
                for e in edits(spec[i], pods, units):
                    s = list(spec)
                    s[i] = e
                    out.append(tuple(s))
        # swapped ends
        if spec_value(spec[1]) != spec_value(spec[2]) if (spec[1] and spec[2]) else spec[1] != spec[2]:
            out.append(("I", spec[2], spec[1], spec[3], spec[4]))
    else:
        for v in (spec[1] + 1, 0, 1, 5):
            if v != spec[1]:
                out.append(("D", v, spec[2], spec[3], spec[4]))
        for u in units:
            if u != spec[2]:
                out.append(("D", spec[1], u, spec[3], spec[4]))
    return out


def respan(spec, a, b):
    s = list(spec)
    s[-2], s[-1] = a, b
    if spec[0] == "I":
        s[1] = respan(spec[1], b, a + 3) if spec[1] is not None else None
        s[2] = respan(spec[2], a + 1, b + 1) if spec[2] is not None else None
    return tuple(s)


def check_pair(sa, sb):
    """returns (bucket, detail) or None"""
    _, corpus = _types()
    a, b = build(sa), build(sb)
    va, vb = spec_value(sa), spec_value(sb)
    same = va == vb
    kind = sa[0] + sb[0]
    try:
        eq = (a == b)
        eq2 = (b == a)
        ne = (a != b)
    except Exception as e:
        return ("eq-raises:" + kind, repr(e))
    if eq != eq2:
        return ("eq-asymmetric:" + kind, "a==b is {} but b==a is {}".format(eq, eq2))
    if ne == eq:
        return ("ne-inconsistent:" + kind, "a==b {} a!=b {}".format(eq, ne))
    if eq != same:
        return ("eq-not-by-value:" + kind + (":equal-values-unequal" if same else ":unequal-values-equal"),
                "a={!r} b={!r} a==b is {} but values {} / {}".format(a, b, eq, va, vb))
    try:
        ha, hb = hash(a), hash(b)
    except Exception as e:
        return ("hash-raises:" + kind, repr(e))
    if same and ha != hb:
        return ("hash-differs-for-equal:" + kind, "a={!r} b={!r}".format(a, b))
    try:
        na, nb = a.nb_str(), b.nb_str()
    except Exception as e:
        return ("nb_str-raises:" + kind, repr(e))
    if (na == nb) != same:
        return ("nb_str-" + ("not-injective" if not same else "span-dependent") + ":" + kind,
                "nb_str {!r} vs {!r}; values {} / {}".format(na, nb, va, vb))
    for s, x, n in ((sa, a, na), (sb, b, nb)):
        try:
            back = corpus.parse_nb_string(n)
        except Exception as e:
            return ("roundtrip-raises:" + s[0], "{!r} -> {!r}".format(n, e))
        if type(back) is not type(x) or value(back) != spec_value(s):
            return ("roundtrip-changes-value:" + s[0],
                    "{!r} parsed back as {!r} (fields {})".format(n, back, value(back)))
        try:
            ok = (back == x) and hash(back) == hash(x)
        except Exception as e:
            return ("roundtrip-eq-raises:" + s[0], repr(e))
        if not ok:
            return ("roundtrip-not-equal:" + s[0], "{!r} parsed back as {!r} != original".format(n, back))
    # value() observer agrees with the spec (sanity of the harness itself)
    if value(a) != va or value(b) != vb:
        raise core.HarnessError("observer disagrees with spec: {} {}".format(value(a), va))
    return None


def apply_edit(obj, sa, sb):
    """edit obj (built from sa) IN PLACE so that it denotes sb's value (sb = single-field edit of sa)"""
    t, _ = _types()
    k = sa[0]
    if k == "T":
        names = ["year", "month", "day", "hour", "minute", "DOW", "POD"]
        for i, nme in enumerate(names):
            if sa[1 + i] != sb[1 + i]:
                setattr(obj, nme, sb[1 + i])
    elif k == "D":
        if sa[1] != sb[1]:
            obj.value = sb[1]
        if sa[2] != sb[2]:
            obj.unit = t.DurationUnit(sb[2])
    else:
        for i, attr in ((1, "t_from"), (2, "t_to")):
            if sa[i] != sb[i]:
                if sa[i] is not None and sb[i] is not None and getattr(obj, attr) is not None:
                    apply_edit(getattr(obj, attr), sa[i], sb[i])     # edit the end object itself
                else:
                    setattr(obj, attr, build(sb[i]) if sb[i] is not None else None)


def check_mutation(sa, sb):
    """a value observed (hashed, printed, parsed) before must behave by its NEW value after being edited in place"""
    _, corpus = _types()
    if sa[0] != sb[0]:
        return None
    a = build(sa)
    try:
        hash(a), a.nb_str(), a == build(sa)
        apply_edit(a, sa, sb)
        b = build(sb)
        if value(a) != spec_value(sb):
            raise core.HarnessError("in-place edit did not produce the intended value: {} vs {}".format(value(a), spec_value(sb)))
        if not (a == b and b == a):
            return ("after-in-place-edit:equal-values-unequal:" + sa[0], "{!r} edited to {!r} != fresh {!r}".format(build(sa), a, b))
        if hash(a) != hash(b):
            return ("after-in-place-edit:hash-is-stale:" + sa[0], "{!r} edited in place hashes differently from an equal fresh value".format(a))
        if a.nb_str() != b.nb_str():
            return ("after-in-place-edit:text-form-is-stale:" + sa[0], "{!r} vs {!r}".format(a.nb_str(), b.nb_str()))
        # the parser must hand out independent objects: edit a parsed result, parse the same text again
        s = build(sa).nb_str()
        x = corpus.parse_nb_string(s)
        apply_edit(x, sa, sb)
        y = corpus.parse_nb_string(s)
        if value(y) != spec_value(sa):
            return ("parser-hands-out-shared-objects:" + sa[0], "{!r} parsed, result edited, parsed again -> {!r}".format(s, y))
    except core.HarnessError:
        raise
    except Exception as e:
        return ("after-in-place-edit:raises:" + sa[0], repr(e))
    return None


def _shard(arg):
    pid, seed, n, shard = arg
    acc = core.Acc(pid)
    any_s, pods, units = strategies()

    def body(case):
        sa, mode, k, sp = case
        if mode == "respan":
            sb = respan(sa, sp[0], sp[1])
        elif mode == "edit":
            es = edits(sa, pods, units)
            sb = es[k % len(es)]
        else:
            sb = mode  # independent draw
            mode = "independent" if sb[0] == sa[0] else "crosskind"
        r = check_pair(sa, sb)
        acc.case((sa, sb), nontrivial=mode in ("respan", "edit"),
                 cls=[mode, "kind:" + sa[0], "equal-values" if spec_value(sa) == spec_value(sb) else "unequal-values"],
                 sample={"a": sa, "b": sb, "mode": mode})
        if r:
            acc.fail(r[0], {"a": sa, "b": sb}, r[1])
        if mode == "edit":
            r2 = check_mutation(sa, sb)
            acc.case((sa, sb, "mut"), nontrivial=True, cls=["in-place-edit", "kind:" + sa[0]], sample={"a": sa, "b": sb, "mode": "edit in place"})
            if r2:
                acc.fail(r2[0], {"a": sa, "b": sb, "mutate": True}, r2[1])

    strat = st.tuples(any_s, st.one_of(st.just("respan"), st.just("edit"), any_s),
                      st.integers(0, 10 ** 6), st.tuples(st.integers(0, 60), st.integers(0, 60)))
    core.hyp_run(strat, body, n, core.shard_seed(seed, shard))
    return acc


def grid_specs():
    """every presence pattern of the seven Time fields with each present field on the edges of its range
    (including day numbers that the month does not have, and DOW 0 / hour 0 / minute 0)"""
    import itertools
    t, _ = _types()
    pods = sorted(t.pod_hours.keys())
    axes = [[None, 1, 1900, 2020, 2021, 9999], [None, 1, 2, 4, 12], [None, 1, 28, 29, 30, 31], [None, 0, 12, 23],
            [None, 0, 59], [None, 0, 6], [None, pods[0], pods[-1]]]
    return [("T",) + c + (0, 0) for c in itertools.product(*axes)]


def _grid(arg):
    pid, part = arg
    acc = core.Acc(pid)
    for i, sa in enumerate(part):
        sb = respan(sa, 3 + i % 5, 9 + i % 7)
        pairs = [(sa, sb)]
        if i % 4 == 0:
            pairs.append((("I", sa, None, 0, 0), ("I", sb, None, 2, 5)))
            pairs.append((("I", None, sa, 0, 0), ("I", part[(i * 7 + 1) % len(part)], sa, 2, 5)))
        for x, y in pairs:
            r = check_pair(x, y)
            acc.case((x, y), nontrivial=True, cls=["grid", "kind:" + x[0]], sample={"a": x, "b": y, "mode": "grid"})
            if r:
                acc.fail(r[0], {"a": x, "b": y}, r[1])
    return acc


def _gold(arg):
    pid, part = arg
    _, corpus = _types()
    acc = core.Acc(pid)
    for g in part:
        bucket = None
        detail = ""
        try:
            x = corpus.parse_nb_string(g)
            s = x.nb_str()
            y = corpus.parse_nb_string(s)
            if type(x) is not type(y) or value(x) != value(y):
                bucket, detail = "gold-roundtrip-changes-value", "{!r} -> {!r} -> {!r}".format(g, s, y)
            elif not (x == y and hash(x) == hash(y)):
                bucket, detail = "gold-roundtrip-not-equal", "{!r} -> {!r}".format(g, s)
        except Exception as e:
            bucket, detail = "gold-raises", "{!r}: {!r}".format(g, e)
        acc.case(("gold", g), nontrivial=True, cls=["gold", "gold-reprints-identically" if not bucket and s == g else "gold-other"],
                 sample={"gold": g})
        if bucket:
            acc.fail(bucket, {"gold": g}, detail)
    return acc


def gold_strings():
    with open(os.path.join(core.REPO, "datasets", "timeparse_corpus.json"), encoding="utf-8") as fd:
        return sorted({e["gold_parse"] for e in json.load(fd)})


def run(ctx):
    n = 60000 if ctx.thorough else 6000
    shards = 16
    acc = core.pmap_acc(ctx.pid, _shard, [(ctx.pid, ctx.seed, n // shards, i) for i in range(shards)])
    acc.merge(core.pmap_acc(ctx.pid, _grid, [(ctx.pid, p) for p in core.chunks(grid_specs(), 32)]))
    golds = gold_strings()
    acc.merge(core.pmap_acc(ctx.pid, _gold, [(ctx.pid, p) for p in core.chunks(golds, 8)]))
    return core.finish(ctx, acc, RULE, assumptions=[
        "field ranges: year 1-9999, month 1-12, day 1-31, hour 0-23, minute 0-59, DOW 0-6, POD any key of pod_hours; duration amounts 0..10000",
        "equality oracle is the tuple of public fields read from the generated spec"],
        shrinker=_shrink)


def _fails(case):
    if "gold" in case:
        a = _gold((None, [case["gold"]]))
        return next(iter(a.failures), None)
    if case.get("mutate"):
        r = check_mutation(_tup(case["a"]), _tup(case["b"]))
    else:
        r = check_pair(_tup(case["a"]), _tup(case["b"]))
    return r[0] if r else None


def _tup(x):
    if isinstance(x, list):
        return tuple(_tup(v) for v in x)
    return x


def _cands(case):
    if "gold" in case:
        return
    a, b = _tup(case["a"]), _tup(case["b"])

    def simpler(s):
        if s[0] == "T":
            for i in range(1, 8):
                if s[i] is not None:
                    t = list(s)
                    t[i] = None
                    yield tuple(t)
            for i in (8, 9):
                if s[i] != 0:
                    t = list(s)
                    t[i] = 0
                    yield tuple(t)
        elif s[0] == "I":
            for i in (1, 2):
                if s[i] is not None:
                    t = list(s)
                    t[i] = None
                    yield tuple(t)
                    for e in simpler(s[i]):
                        t = list(s)
                        t[i] = e
                        yield tuple(t)
            for i in (3, 4):
                if s[i] != 0:
                    t = list(s)
                    t[i] = 0
                    yield tuple(t)
        else:
            if s[1] > 1:
                yield ("D", 1, s[2], s[3], s[4])
            for i in (3, 4):
                if s[i] != 0:
                    t = list(s)
                    t[i] = 0
                    yield tuple(t)

    if case.get("mutate"):
        return
    for x in simpler(a):
        yield {"a": x, "b": b}
    for x in simpler(b):
        yield {"a": a, "b": x}


def _shrink(case, bucket):
    c = core.greedy_shrink(case, _fails, _cands)
    r = replay(c)
    return core.jsonable(c), (r[1] if r else None)


def replay(case):
    if "gold" in case:
        a = _gold((None, [case["gold"]]))
        for b, lst in a.failures.items():
            return (b, lst[0][1])
        return None
    if case.get("mutate"):
        return check_mutation(_tup(case["a"]), _tup(case["b"]))
    return check_pair(_tup(case["a"]), _tup(case["b"]))
