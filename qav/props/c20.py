"""C20 Date part and clock part compose: '<day> <time>' is that day at that time."""
import datetime as dt
import json
import os

from hypothesis import strategies as st

from .. import core, gen
from .. import oracle as O

RULE = ("Finite domain: day expressions of the specification grammar (relative days, this/next weekday, weekday "
        "names EN/DE, days of month, day+month, absolute dates numeric and with month names; {nday} forms) x clock "
        "notations ({nclock} templates: 24h, 12h, on-the-hour, named hours, spoken) x both orders x connectors "
        "{{blank, comma, at, um}} x hours {{0,1,8,11,12,13,20,23}} x minutes {{0,5,30}}, the reference time being a fixed function of the other coordinates (4 reference times incl. leap day and year end). Excluded by construction as the property states: clock-first "
        "order with written hour 12 directly followed by German 'am <day>'. Oracle (homomorphism): date fields of "
        "parse(day+clock) = date fields of parse(day); hour/minute = those of parse(clock, latent_time=False) "
        "(minute None = 0), cross-checked against the written hour/minute. Every case is run at two levels: L0 = "
        "max_stack_depth 0 (nothing pruned; within the work bound) and L10 = default options. quick: Hypothesis "
        "sample of the domain; thorough: the whole domain enumerated. L10 failures that come from beam pruning are "
        "recorded findings (known_findings.json lists the exact day form x template x order x connector keys, "
        "generated from the complete enumeration); every other failure is a violation. Non-trivial = distinct texts at a level whose day part is not an absolute date "
        "(the day must be computed) or whose clock is a 12h/spoken form.")

DAYS = [
    # relative
    "today", "heute", "tomorrow", "morgen", "übermorgen", "yesterday", "gestern", "vorgestern", "EOM", "end of the month",
    # this / next weekday
    "this friday", "on monday", "am montag", "diesen freitag", "next friday", "nächsten freitag", "friday next week", "kommenden dienstag",
    # weekday names
    "monday", "tuesday", "wednesday", "thursday", "friday", "saturday", "sunday", "montag", "dienstag", "mittwoch",
    "donnerstag", "freitag", "samstag", "sonntag", "mon", "fri", "sat.",
    # day of month
    "5.", "5th", "the 5th", "am 5.", "on the 21st", "31st", "den 13.",
    # day + month
    "5.10.", "05.10.", "5. Oktober", "October 5", "5th of October", "Oct 5th", "29.2.", "March 3rd", "3. März",
    "5/5", "13/5", "3/märz",
    # absolute
    "5.10.2021", "05.10.2021", "5/10/2021", "05-10-2021", "05.10.21", "5 May 2021", "May 5 2021", "5. Mai 2021",
    "May 5th, 2021", "12/12/2022", "December 12 2022", "31.12.2021",
]
# (template, kind); h12/ap derived from h
CLOCKS = [
    ("{h}:{mi:02d}", "24h"), ("{h:02d}:{mi:02d}", "24h"), ("{h}h{mi:02d}", "24h"), ("{h}uhr{mi:02d}", "24h"), ("{h}:{mi:02d} Uhr", "24h"),
    ("{h:02d}:{mi:02d}h", "24h"), ("{h:02d}{mi:02d} Uhr", "24h"), ("{h:02d}{mi:02d}h", "24h"),
    ("{h12}:{mi:02d}{ap}", "12h"), ("{h12}:{mi:02d} {ap}", "12h"), ("{h12}:{mi:02d} {a_p}", "12h"), ("{h12}.{mi:02d}{AP}", "12h"),
    ("{h} Uhr", "hour"), ("{h} uhr", "hour"), ("{h} o'clock", "hour"), ("{h}h", "hour"),
    ("{h12}{ap}", "hour12"), ("{h12} {ap}", "hour12"), ("{h12} {a_p}", "hour12"),
    # sentence-final / one-dot markers
    ("{h12}{ap}.", "hour12"), ("{h12} {ap}.", "hour12"), ("{h12}:{mi:02d}{ap}.", "12h"), ("{h12} {a_p1}", "hour12"),
    ("{named_en}", "named"), ("{named_en} o'clock", "named"), ("{named_de} uhr", "named"), ("{named_de}", "named"),
    ("quarter past {named_en}", "spoken"), ("halb {named_de}", "spoken"), ("viertel vor {named_de}", "spoken"), ("half past {h12}", "spoken"),
    ("midnight", "fixed"), ("mitternacht", "fixed"),
]
NAMED_EN = ["twelve", "one", "two", "three", "four", "five", "six", "seven", "eight", "nine", "ten", "eleven"]
NAMED_DE = ["zwölf", "eins", "zwei", "drei", "vier", "fünf", "sechs", "sieben", "acht", "neun", "zehn", "elf"]
CONNS = ["", ",", "at", "um"]
HOURS = [0, 1, 8, 11, 12, 13, 20, 23]
MINS = [0, 30, 5]
REFS = [dt.datetime(2021, 3, 10, 11, 20), dt.datetime(2020, 2, 29, 23, 59, 59), dt.datetime(2022, 12, 31, 8, 0),
        dt.datetime(2019, 7, 1, 0, 0)]


def clock_text(tpl, kind, h, mi):
    """-> (text, expected hour, expected minute) or None if this template cannot express (h, mi)"""
    h12 = h % 12 or 12
    ap = "am" if h < 12 else "pm"
    if kind in ("hour", "hour12") and mi != 0:
        mi = 0
    if kind == "named":
        if mi != 0:
            mi = 0
        n = h % 12
        if h == 0 or h > 12:
            h = h % 12 or 12
        n = h % 12
        return tpl.format(named_en=NAMED_EN[n], named_de=NAMED_DE[n]), (12 if n == 0 else n), 0
    if kind == "spoken":
        n = (h % 12) or 12
        if tpl.startswith("quarter past"):
            return tpl.format(named_en=NAMED_EN[n % 12]), n, 15
        if tpl.startswith("halb"):
            return tpl.format(named_de=NAMED_DE[n % 12]), n - 1, 30
        if tpl.startswith("viertel vor"):
            return tpl.format(named_de=NAMED_DE[n % 12]), n - 1, 45
        return tpl.format(h12=n), n, 30
    if kind == "fixed":
        return tpl, 0, 0
    return tpl.format(h=h, mi=mi, h12=h12, ap=ap, AP=ap.upper(), a_p=ap[0] + ".m.", a_p1=ap[0] + ".m"), h, mi


def compose(day, ctext, order, conn):
    if order == "day-first":
        if conn == "":
            return day + " " + ctext
        if conn == ",":
            return day + ", " + ctext
        return day + " " + conn + " " + ctext
    if conn == "":
        return ctext + " " + day
    if conn == ",":
        return ctext + ", " + day
    return conn + " " + ctext + " " + day


def excluded(day, ctext, eh, order):
    # clock-first, written hour 12, directly followed by German 'am <day>'
    return order == "clock-first" and day.startswith("am ") and "12" in ctext


def norm(v):
    if v is not None and v[0] == "T" and v[4] is not None and v[5] is None:
        return v[:5] + (0,) + v[6:]
    return v


_alone = {}


def alone(text, ref, latent):
    k = (text, ref, latent)
    if k not in _alone:
        if len(_alone) > 20000:
            _alone.clear()
        _alone[k] = norm(O.bestval(text, ref, latent_time=latent))
    return _alone[k]


def check(day, tpl, kind, h, mi, order, conn, ref, level):
    """-> (text, status, (bucket, detail)|None); status in ok|skip|fail"""
    ct = clock_text(tpl, kind, h, mi)
    ctext, eh, emi = ct
    if excluded(day, ctext, eh, order):
        return None, "excluded", None
    text = compose(day, ctext, order, conn)
    depth = 0 if level == "L0" else 10
    if level == "L0":
        n, nseq, maxlen = gen.seq_stats3(text)
        if nseq > 40 or maxlen > 6:
            return text, "skip-L0-work-bound", None
    try:
        vd = alone(day, ref, True)
        vc = alone(ctext, ref, False)
        got = norm(O.bestval(text, ref, max_stack_depth=depth))
    except Exception as e:
        return text, "fail", ("parse-raises(see C01):" + type(e).__name__, repr(e))
    if vd is None or vd[0] != "T" or None in vd[1:4]:
        return text, "fail", ("day-part-alone-is-not-a-date", "{!r} -> {}".format(day, O.vstr(vd)))
    if vc is None or vc[0] != "T" or vc[4] is None or any(x is not None for x in vc[1:4]):
        return text, "fail", ("clock-part-alone-is-not-a-clock-time", "{!r} -> {}".format(ctext, O.vstr(vc)))
    if (vc[4], vc[5]) != (eh, emi):
        return text, "fail", ("clock-part-alone-differs-from-written-time(see C06)", "{!r} -> {} written {}:{}".format(ctext, O.vstr(vc), eh, emi))
    exp = O.T(vd[1], vd[2], vd[3], vc[4], vc[5])
    if got == exp:
        return text, "ok", None
    if got is None:
        what = "no-result"
    elif got[0] != "T":
        what = "not-a-time"
    elif got[1:4] != exp[1:4] and got[4:6] != exp[4:6]:
        what = "day-moved-and-clock-wrong" if got[4] is not None else "clock-dropped-and-day-moved"
    elif got[1:4] != exp[1:4]:
        what = "day-moved" if None not in got[1:4] else "day-dropped"
    elif got[4] is None:
        what = "clock-dropped"
    else:
        what = "clock-wrong"
    return text, "fail", ("{}|{}|{}".format(level, what, kind),
                          "{!r} at {} [{}] -> {} expected {} (day alone {}, clock alone {})".format(
                              text, ref.isoformat(), level, O.vstr(got), O.vstr(exp), O.vstr(vd), O.vstr(vc)))


def ref_for(day, tpl, order, conn, h, mi):
    """the reference time is a function of the other coordinates: the domain stays finite and the
    thorough tier enumerates exactly what the quick tier samples"""
    return REFS[int.from_bytes(core.jhash((day, tpl, order, conn, h, mi)), "big") % len(REFS)]


def day_class(day):
    i = DAYS.index(day)
    return "relative" if i < 10 else "this-next-weekday" if i < 18 else "weekday" if i < 35 else "day-of-month" if i < 42 else \
        "day+month" if i < 54 else "absolute"


def do(acc, day, ci, h, mi, order, conn, ref, origin):
    tpl, kind = CLOCKS[ci]
    for level in ("L0", "L10"):
        text, status, r = check(day, tpl, kind, h, mi, order, conn, ref, level)
        if status == "excluded":
            acc.notes["excluded-12-am-day"] += 1
            return
        if status.startswith("skip"):
            acc.notes[status] += 1
            continue
        dc = day_class(day)
        acc.case((text, ref, level), nontrivial=(dc != "absolute" or kind in ("12h", "hour12", "spoken", "named")),
                 cls=[origin, level, "day:" + dc, "clock:" + kind, order, "conn:" + (conn or "blank")],
                 sample={"text": text, "ts": ref.isoformat(), "level": level})
        if r:
            acc.fail(r[0], {"day": day, "clock": tpl, "h": h, "mi": mi, "order": order, "conn": conn, "ts": ref.isoformat(),
                            "level": level, "text": text, "tplkey": "{}|{}|{}".format(tpl, order, conn)}, r[1])


def _quick_shard(arg):
    pid, seed, n, shard = arg
    acc = core.Acc(pid)
    strat = st.tuples(st.sampled_from(DAYS), st.integers(0, len(CLOCKS) - 1), st.sampled_from(HOURS), st.sampled_from(MINS),
                      st.sampled_from(["day-first", "clock-first"]), st.sampled_from(CONNS))

    def body(c):
        day, ci, h, mi, order, conn = c
        do(acc, day, ci, h, mi, order, conn, ref_for(day, CLOCKS[ci][0], order, conn, h, mi), "sampled")

    core.hyp_run(strat, body, n, core.shard_seed(seed, shard))
    return acc


def _full_shard(arg):
    pid, days, seed = arg
    acc = core.Acc(pid)
    for day in days:
        for ci in range(len(CLOCKS)):
            for order in ("day-first", "clock-first"):
                for conn in CONNS:
                    for h in HOURS:
                        for mi in MINS:
                            do(acc, day, ci, h, mi, order, conn, ref_for(day, CLOCKS[ci][0], order, conn, h, mi), "all-combinations")
    return acc


def run(ctx):
    acc = core.Acc(ctx.pid)
    subs = []
    if ctx.thorough:
        acc.merge(core.pmap_acc(ctx.pid, _full_shard, [(ctx.pid, p, ctx.seed) for p in core.chunks(DAYS, 64)]))
        subs = ["the whole domain: day forms x clock templates x orders x connectors x hours {0,1,8,11,12,13,20,23} x minutes {0,5,30}"]
    n = 16000 if ctx.thorough else int(os.environ.get("QAV_N", 12000))
    acc.merge(core.pmap_acc(ctx.pid, _quick_shard, [(ctx.pid, ctx.seed, n // 16, i) for i in range(16)]))
    return core.finish(ctx, acc, RULE.format(nday=len(DAYS), nclock=len(CLOCKS)), assumptions=[
        "the day part alone and the clock part alone (latent off) are parsed with default options; their values define the expectation",
        "L0 (max_stack_depth=0) is run only within the work bound (<=40 candidate sequences of <=6 matches); skipped cases are counted in notes",
        "minute None equals 0"], extra={"exhaustive_subdomains": subs})


def replay(case):
    kind = [k for t, k in CLOCKS if t == case["clock"]]
    if not kind:
        return None
    text, status, r = check(case["day"], case["clock"], kind[0], case["h"], case["mi"], case["order"], case["conn"],
                            core.parse_ts(case["ts"]), case["level"])
    return r if status == "fail" else None
