"""C13 Timeout honoured: bounded work between deadline checks, clean partial results."""
import datetime as dt
import sys

from .. import core, gen
from ..oracle import value

RULE = ("Virtual clock: ctparse.timers.perf_counter replaced by a counter advancing one tick per read. "
        "Per input one run with an unreachable deadline counts the reads R and records the full "
        "stream; then EVERY expiry point k in 1..R (timeout=k+0.5, i.e. the deadline falls between two "
        "consecutive reads) is run (stratified beyond a stated budget). Inputs: bundled corpus samples "
        "and the families '1 2 .. n' / 'mon 1 2 ..' with 3^n candidate sequences. Observed with a "
        "recording scorer, recording registry wrappers and a recording applicability analysis. Oracle: "
        "no exception; stream under timeout is a prefix (value, span, production, score) of the full "
        "stream; ctparse() returns a best-scoring element of that prefix or an empty result; timeout=0 "
        "gives the full stream; work after the deadline (scorings + rule applications + applicability "
        "analyses at a clock value past the deadline) <= 2*|rules|*L + L + 2 with L the longest "
        "candidate sequence - independent of the number of sequences. Non-trivial = distinct (input, k) "
        "with k < R (the deadline really expires inside the run). History clause: for every input, a fresh process that "
        "first meets the text under ~165 expiring deadlines must afterwards stream, without a deadline, exactly what a "
        "fresh process without that history streams.")


class Clock:
    """one tick per read; remembers which reads were deadline checks (reads not made by
    the timeit() wrapper) so that 'between two checks' is observable"""

    def __init__(self):
        self.t = 0
        self.nchecks = 0
        self.check_reads = []

    in_check = None   # None: deadline checks are recognised by the caller's name; True/False: set by the wrapped closure

    def __call__(self):
        v = self.t
        self.t += 1
        is_check = self.in_check if self.in_check is not None else sys._getframe(1).f_code.co_name != "_wrapper"
        if is_check:
            self.nchecks += 1
            self.check_reads.append(v)
        return v


class Instr:
    """installs the virtual clock and the recorders; restores everything on exit"""

    def __init__(self):
        core.load_repo()
        import ctparse.timers as timers
        import ctparse.rule as R
        import ctparse.partial_parse as PP
        self.timers, self.R, self.PP = timers, R, PP
        self.clock = Clock()
        self.events = []

    def __enter__(self):
        self._pc = self.timers.perf_counter
        self.timers.perf_counter = self.clock
        # recognise deadline checks by wrapping the factory the parser module uses (independent of the names of the
        # inner functions of timers.py); if the module has no such name, fall back to the caller-name rule
        m = core.load_repo()
        self._m = m
        self._timeout = getattr(m, "timeout_", None)
        if self._timeout is not None:
            clock = self.clock
            orig = self._timeout

            def factory(t):
                clock.in_check = False
                f = orig(t)   # reads the start time: not a check

                def check():
                    clock.in_check = True
                    try:
                        return f()
                    finally:
                        clock.in_check = False
                return check

            m.timeout_ = factory
        self._rules = dict(self.R.rules)
        ev, clock = self.events, self.clock
        order = {n: i for i, n in enumerate(self._rules)}

        def mk(name, w):
            def rw(ts, *args):
                ev.append(("apply", clock.t, clock.nchecks, order[name]))
                return w(ts, *args)
            return rw

        for n, (w, pats) in self._rules.items():
            self.R.rules[n] = (mk(n, w), pats)
        # the applicability analysis is recorded where the library still has it under this name; without it the
        # 'analyse' events are simply absent (the scorings of the candidate sequences are still observed)
        self._filter = getattr(self.PP.PartialParse, "_filter_rules", None)
        orig_filter = self._filter
        if orig_filter is not None:
            def filt(pp_self, *a, **kw):
                ev.append(("analyse", clock.t, clock.nchecks, -1))
                return orig_filter(pp_self, *a, **kw)

            self.PP.PartialParse._filter_rules = filt
        return self

    def __exit__(self, *a):
        self.timers.perf_counter = self._pc
        if self._timeout is not None:
            self._m.timeout_ = self._timeout
        self.clock.in_check = None
        for n, v in self._rules.items():
            self.R.rules[n] = v
        if self._filter is not None:
            self.PP.PartialParse._filter_rules = self._filter

    def reset(self):
        self.clock.t = 0
        self.clock.nchecks = 0
        del self.clock.check_reads[:]
        del self.events[:]

    def scorer(self):
        m = core.load_repo()
        from ctparse.scorer import Scorer
        inner = core.default_scorer()
        ev, clock = self.events, self.clock

        class Rec(Scorer):
            def score(self, txt, ts, pp):
                # a partial parse straight from a candidate sequence has a trace of pattern ids only ("score0");
                # a child made by a rule carries the rule's name last, its parent's trace is everything before
                tr = tuple(pp.rules)
                if any(isinstance(r, str) for r in tr):
                    ev.append(("score", clock.t, clock.nchecks, -1, tr[:-1]))
                else:
                    ev.append(("score0", clock.t, clock.nchecks, -1, tr))
                return inner.score(txt, ts, pp)

            def score_final(self, txt, ts, pp, prod):
                ev.append(("final", clock.t, clock.nchecks, -1, tuple(pp.rules)))
                return inner.score_final(txt, ts, pp, prod)

        return Rec()


def unit_problems(events):
    """Between two consecutive deadline checks at most one candidate sequence may be analysed / scored and at most
    one partial parse expanded.  One expansion shows as (apply | score)* final*: rule applications in registry order
    (the loop over the applicable rules; a memo may skip some), scorings of children that all have the SAME parent
    trace, then possibly the emission of the parent itself.  A second expansion inside the same group is visible as
    children of two different parents, as an apply after an emission, or as a restart of the rule order; a second
    candidate sequence as two sequence scorings or analyses in one group."""
    groups = {}
    for e in events:
        groups.setdefault(e[2], []).append(e)
    bad = []
    for g, evs in sorted(groups.items()):
        kinds = [e[0] for e in evs]
        if "analyse" in kinds:
            if kinds != ["analyse"]:
                bad.append(("several-analyses-or-mixed-work-between-two-checks", g, kinds[:8], len(kinds)))
            continue
        if "score0" in kinds:
            if kinds != ["score0"]:
                bad.append(("several-scorings-between-two-checks", g, kinds[:8], len(kinds)))
            continue
        last_idx = -1
        seen_final = False
        parents = set()
        for e in evs:
            k = e[0]
            if k == "apply":
                if seen_final:
                    bad.append(("second-expansion-between-two-checks(apply after emission)", g, kinds[:8], len(kinds)))
                    break
                if e[3] < last_idx:
                    bad.append(("second-expansion-between-two-checks(rule order restarts)", g, kinds[:8], len(kinds)))
                    break
                last_idx = e[3]
            else:
                parents.add(e[4])
                if len(parents) > 1:
                    bad.append(("several-scorings-between-two-checks", g, kinds[:8], len(kinds)))
                    break
                if k == "final":
                    seen_final = True
    return bad


def tup(c):
    r = c.resolution
    return (value(r), r.mstart, r.mend, tuple(c.production), c.score)


def baseline(ins, text, ts):
    m = core.load_repo()
    ins.reset()
    full = [tup(c) for c in m.ctparse_gen(text, ts, timeout=10 ** 15, scorer=ins.scorer()) if c]
    R = ins.clock.t
    first_loop = min([e[1] for e in ins.events if e[0] in ("apply", "final")] or [R])
    units = unit_problems(list(ins.events))
    ins.reset()
    zero = [tup(c) for c in m.ctparse_gen(text, ts, timeout=0, scorer=ins.scorer()) if c]
    return full, R, first_loop, zero, units


def longest_sequence(text):
    # harness-side count over the library's matches (gen.seq_stats3); independent of the library's own enumeration
    n, nseq, maxlen = gen.seq_stats3(text)
    return max(maxlen, 1), nseq


def check_point(ins, text, ts, k, full, bound, single):
    """-> list of (bucket, detail)"""
    m = core.load_repo()
    fails = []
    ins.reset()
    to = k + 0.5
    try:
        got = [tup(c) for c in m.ctparse_gen(text, ts, timeout=to, scorer=ins.scorer()) if c]
    except Exception as e:
        return [("raises-under-timeout:" + type(e).__name__, "k={}: {!r}".format(k, e))]
    late = [e for e in ins.events if e[1] > to]
    # exact stop: nothing may happen after the first deadline check that reads a value past the deadline
    due = [v for v in ins.clock.check_reads if v > to and v > 0]
    if due:
        after = [e for e in ins.events if e[1] > due[0]]
        if after or len(due) > 1:
            fails.append(("does-not-stop-at-first-check-after-deadline", "k={}: check at clock {} was past the deadline, yet {} more events and {} more checks".format(
                k, due[0], len(after), len(due) - 1)))
    if got != full[:len(got)]:
        fails.append(("not-a-prefix-of-untimed-stream", "k={}: got {} items, first differing {}".format(
            k, len(got), next((i for i, (a, b) in enumerate(zip(got, full)) if a != b), len(full)))))
    if len(late) > bound:
        kinds = {}
        for e in late:
            kinds[e[0]] = kinds.get(e[0], 0) + 1
        fails.append(("unbounded-work-after-deadline", "k={}: {} events after the deadline {} (bound {})".format(
            k, len(late), kinds, bound)))
    if single:
        ins.reset()
        try:
            r = m.ctparse(text, ts, timeout=to, scorer=ins.scorer())
        except Exception as e:
            return fails + [("ctparse-raises-under-timeout:" + type(e).__name__, "k={}: {!r}".format(k, e))]
        if not got:
            if r is None or r.resolution is not None:
                fails.append(("result-without-stream", "k={}: {!r}".format(k, r)))
        else:
            best = max(g[4] for g in got)
            if r is None or r.resolution is None:
                fails.append(("empty-result-although-prefix-nonempty", "k={}".format(k)))
            else:
                rt = tup(r)
                if rt not in got or rt[4] != best:
                    fails.append(("result-not-best-of-prefix", "k={}: returned {} best score {}".format(k, rt, best)))
    return fails


def expiry_points(R, budget):
    if R <= budget:
        return list(range(1, R + 1)), True
    dense = budget // 2
    ks = list(range(1, dense + 1))
    rest = budget - dense
    step = max(1, (R - dense) // rest)
    ks += list(range(dense + 1, R + 1, step))
    if ks[-1] != R:
        ks.append(R)
    return ks, False


def _job(arg):
    pid, text, ts, lo_i, hi_i, budget = arg
    acc = core.Acc(pid)
    m = core.load_repo()
    import ctparse.rule as Rm
    L, nseq = longest_sequence(text)
    bound = 2 * len(Rm.rules) * L + L + 2
    with Instr() as ins:
        full, R, first_loop, zero, units = baseline(ins, text, ts)
        if lo_i == 0:
            acc.case(("zero", text), nontrivial=False, cls="timeout=0-run", sample={"text": text, "timeout": 0, "stream": len(zero)})
            if zero != full:
                acc.fail("timeout-0-is-not-unlimited", {"text": text, "ts": ts.isoformat(), "k": 0},
                         "timeout=0 yields {} items, unreachable deadline {}".format(len(zero), len(full)))
            for what, g, kinds, n in units[:3]:
                acc.fail("no-check-between-units:" + what, {"text": text, "ts": ts.isoformat(), "k": -1},
                         "check-interval #{} holds {} events: {}...".format(g, n, kinds))
            acc.case(("units", text), nontrivial=True, cls="work-units-between-checks", sample={"text": text, "unit_check": True})
        ks, complete = expiry_points(R, budget)
        for i, k in enumerate(ks[lo_i:hi_i]):
            fails = check_point(ins, text, ts, k, full, bound, single=(k % 3 == 0 or k == R))
            phase = "stack-phase" if k < first_loop else "production-loop"
            acc.case((text, k), nontrivial=k < R, cls=[phase, "sequences>=81" if nseq >= 81 else "sequences<81"],
                     sample={"text": text, "ts": ts.isoformat(), "k": k, "reads_total": R, "phase": phase, "sequences": nseq})
            for b, d in fails:
                acc.fail(b + ":" + phase, {"text": text, "ts": ts.isoformat(), "k": k}, d)
        if lo_i == 0:
            acc.notes["inputs"] += 1
            acc.notes["inputs-with-all-expiry-points" if complete else "inputs-stratified"] += 1
    return acc


HISTORY_KS = list(range(1, 150)) + [160, 200, 233, 300, 377, 450, 610, 800, 987, 1300, 1597, 2000, 2584, 3500, 4181]


def _history_job(arg):
    """the untimed stream of a text in a process that has / has not met the text under expiring deadlines before"""
    text, ts, mode = arg
    m = core.load_repo()
    err = None
    with Instr() as ins:
        if mode == "after-timeouts":
            for k in HISTORY_KS:
                ins.reset()
                try:
                    list(m.ctparse_gen(text, ts, timeout=k + 0.5, scorer=ins.scorer()))
                except Exception as e:
                    err = "k={}: {!r}".format(k, e)
                    break
        ins.reset()
        try:
            full = [tup(c) for c in m.ctparse_gen(text, ts, timeout=10 ** 15, scorer=ins.scorer()) if c]
        except Exception as e:
            full, err = None, err or "untimed run: {!r}".format(e)
    return text, full, err


def history_problems(inputs, ts):
    """-> {text: (bucket, detail)}: both modes run in pools of their own, forked from a parent that never parsed"""
    clean = {t: (f, e) for t, f, e in core.pmap(_history_job, [(t, ts, "clean") for t in inputs])}
    after = {t: (f, e) for t, f, e in core.pmap(_history_job, [(t, ts, "after-timeouts") for t in inputs])}
    out = {}
    for t in inputs:
        (f0, e0), (f1, e1) = clean[t], after[t]
        if e0 or e1:
            out[t] = ("raises-in-history-run", str(e0 or e1))
        elif f0 != f1:
            i = next((i for i, (a, b) in enumerate(zip(f0, f1)) if a != b), min(len(f0), len(f1)))
            out[t] = ("untimed-stream-differs-after-timed-out-runs",
                      "a process that first met the text under {} expiring deadlines then streams {} items without a deadline, a fresh one {}; "
                      "first difference at #{}".format(len(HISTORY_KS), len(f1), len(f0), i))
    return out


FAMILIES = ["1 2", "1 2 3", "1 2 3 4", "1 2 3 4 5", "mon 1 2 3", "8 9 10 11 12", "1 2 3 4 5 6"]
FAMILIES_THOROUGH = ["1 2 3 4 5 6 7", "tomorrow 8 yesterday Sep 9 9 12"]
CORPUS_PICK = ["heute", "8:00 pm - 9:00 pm", "friday 9-5", "May 5th 2020 8:30 pm", "tomorrow for 2 days",
               "15.11.2020 - 18.11.2020 3 days", "morgen früh", "between 8 and 10 on monday", "#tag call mum at 5",
               "gargelbabel", ""]


def run(ctx):
    ts = dt.datetime(2020, 2, 25, 12, 34)
    inputs = FAMILIES + CORPUS_PICK
    budget = 400
    if ctx.thorough:
        inputs = inputs + FAMILIES_THOROUGH + [t for i, (t, _, _) in enumerate(gen.corpus_texts()) if i % 12 == ctx.seed % 12]
        budget = 3000
    else:
        ct = gen.corpus_texts()
        inputs = inputs + [ct[(ctx.seed * 7919 + i * 37) % len(ct)][0] for i in range(6)]
    jobs = []
    for text in inputs:
        # the number of expiry points is only known after the baseline: split by index ranges
        for lo in range(0, budget + 2, 100):
            jobs.append((ctx.pid, text, ts, lo, lo + 100, budget))
    # history: nothing a timed-out run leaves behind may change what a later run without deadline streams
    hist_inputs = [t for t in inputs if t.strip()]
    hp = history_problems(hist_inputs, ts)
    acc = core.Acc(ctx.pid)
    for t in hist_inputs:
        acc.case(("history", t), nontrivial=True, cls="untimed-run-after-timed-out-runs", sample={"text": t, "ts": ts.isoformat(), "k": -2})
        if t in hp:
            acc.fail(hp[t][0], {"text": t, "ts": ts.isoformat(), "k": -2}, hp[t][1])
    acc.merge(core.pmap_acc(ctx.pid, _job, jobs))
    return core.finish(ctx, acc, RULE, level="fault_enumeration", exhaustive=False, assumptions=[
        "the virtual clock advances only when read; the deadline closure and timeit() are the only readers",
        "expiry points are complete for inputs with R <= {} reads, stratified beyond (counts in notes)".format(budget),
        "work bound 2*|rules|*L + L + 2 = one expansion of one partial parse (applications, their scorings, final scorings)"],
        extra={"expiry_point_budget_per_input": budget})


def replay(case):
    import ctparse.rule as Rm
    text, ts, k = case["text"], core.parse_ts(case["ts"]), case["k"]
    if k == -2:
        return history_problems([text], ts).get(text)
    L, nseq = longest_sequence(text)
    bound = 2 * len(Rm.rules) * L + L + 2
    with Instr() as ins:
        full, R, first_loop, zero, units = baseline(ins, text, ts)
        if k == 0:
            return ("timeout-0-is-not-unlimited", "") if zero != full else None
        if k == -1:
            return ("no-check-between-units:" + units[0][0], str(units[0])) if units else None
        fails = check_point(ins, text, ts, k, full, bound, single=True)
    return fails[0] if fails else None
