"""C15 The search yields exactly what the rules license (sound, complete, pure)."""
import copy
import datetime as dt
import json
import re

from hypothesis import strategies as st

from .. import core, gen
from ..oracle import value

RULE = ("Short texts (Hypothesis: <=4 vocabulary tokens, structured families, bundled corpus expressions; "
        "bounded so that the derivation graph is enumerable) x scorers {constant, shipped, seeded random} "
        "x depth {0, 1, 10}. Reference = naive closure written independently of the parser: all matches "
        "of all patterns (own loop over the pattern table), all maximal gap-free chains (own adjacency), "
        "maximal coverage, breadth-first application of every registered rule at every window on CLONES "
        "of the arguments, dedup on (values, spans); records the edge-labelled derivation graph. Oracle: "
        "every streamed (value, span) is an element of a reachable sequence; its production (pattern ids "
        "+ rule names) is a path of the graph ending in a sequence containing it; with depth 0 every "
        "element of a fully reduced sequence is streamed (by value); argument snapshots before/after "
        "every production are equal (registry wrapped in place) and every yielded candidate is "
        "unchanged when the stream ends; the stream with latent_time=True equals the latent-off stream with every value anchored by a harness-side statement of the anchoring rule (same productions, same scores). Plus a pinned list of texts with large search fronts at unlimited depth x 8 scorers. Non-trivial = distinct (text, ts) whose graph has >=2 maximal "
        "sequences or >=3 rule applications.")

MAX_STATES = 20000


def _lib():
    m = core.load_repo()
    import ctparse.rule as R
    import ctparse.types as T
    return m, R, T


def clone(x, T):
    if isinstance(x, T.RegexMatch):
        return copy.copy(x)
    if isinstance(x, T.Time):
        y = T.Time(year=x.year, month=x.month, day=x.day, hour=x.hour, minute=x.minute, DOW=x.DOW, POD=x.POD)
    elif isinstance(x, T.Interval):
        y = T.Interval(t_from=clone(x.t_from, T) if x.t_from is not None else None,
                       t_to=clone(x.t_to, T) if x.t_to is not None else None)
    elif isinstance(x, T.Duration):
        y = T.Duration(x.value, x.unit)
    else:
        raise core.HarnessError("unknown artifact {!r}".format(x))
    y.mstart, y.mend = x.mstart, x.mend
    return y


def ekey(x, T):
    if isinstance(x, T.RegexMatch):
        return ("R", x.id, x.mstart, x.mend)
    v = value(x)
    sub = ()
    if v[0] == "I":
        # spans of the ends are not observable results; keep only values
        pass
    return (v, x.mstart, x.mend) + sub


def skey(seq, T):
    return tuple(ekey(x, T) for x in seq)


def windows(seq, pats):
    k = len(pats)
    for i in range(0, len(seq) - k + 1):
        ok = True
        for j in range(k):
            if not pats[j](seq[i + j]):
                ok = False
                break
        if ok:
            yield i, i + k


class Closure:
    def __init__(self, text, ts, rml=1.0):
        m, R, T = _lib()
        self.T = T
        t = m._preprocess_string(text)
        # labels (#tag) are cut out before matching; what remains (normalised to single
        # blanks again) is the text the patterns see
        t = re.sub(" +", " ", re.sub("#[a-zA-Z0-9_-]+", "", t)).strip()
        self.cleaned = t
        # 1 all matches of all patterns
        seen = {}
        for rid, rx in R._regex.items():
            for mm in rx.finditer(t, overlapped=True):
                rmatch = T.RegexMatch(rid, mm)
                seen.setdefault((rmatch.mstart, rmatch.mend, rid), rmatch)
        ms = [seen[k] for k in sorted(seen)]
        self.matches = ms
        n = len(ms)

        def adj(a, b):
            gap = t[a.mend:b.mstart]
            return b.mstart >= a.mend and (gap == "" or gap.isspace())

        succ = [[j for j in range(n) if j != i and adj(ms[i], ms[j])] for i in range(n)]
        haspred = [False] * n
        for i in range(n):
            for j in succ[i]:
                haspred[j] = True
        chains = []

        def ext(path):
            last = path[-1]
            if not succ[last]:
                chains.append(tuple(path))
                return
            for j in succ[last]:
                if len(chains) > 5000:
                    return
                ext(path + [j])

        for i in range(n):
            if not haspred[i]:
                ext([i])
        self.too_big = len(chains) > 5000
        cov = [ms[c[-1]].mend - ms[c[0]].mstart for c in chains]
        mx = max(cov) if cov else 0
        self.chains = [tuple(ms[i] for i in c) for c, cv in zip(chains, cov) if cv >= mx * rml]
        self.all_chains = len(chains)
        # 2 closure
        self.states = {}
        self.edges = {}   # skey -> {rule name -> set(skey)}
        self.reduced_states = []
        self.napps = 0
        frontier = []
        for c in self.chains:
            k = skey(c, T)
            if k not in self.states:
                self.states[k] = c
                frontier.append(k)
        self.initial = list(frontier)
        rules = list(R.rules.items())
        while frontier and not self.too_big:
            nxt = []
            for k in frontier:
                seq = self.states[k]
                out = self.edges.setdefault(k, {})
                produced = False
                for name, (fn, pats) in rules:
                    for a, b in windows(seq, pats):
                        args = [clone(x, T) for x in seq[a:b]]
                        try:
                            res = fn(ts, *args)
                        except Exception as e:
                            raise core.HarnessError("rule {} raised {!r} in the reference closure (totality is C01's business)".format(name, e))
                        if res is None:
                            continue
                        self.napps += 1
                        produced = True
                        new = tuple(seq[:a]) + (clone(res, T),) + tuple(seq[b:])
                        nk = skey(new, T)
                        out.setdefault(name, set()).add(nk)
                        if nk not in self.states:
                            self.states[nk] = new
                            nxt.append(nk)
                            if len(self.states) > MAX_STATES:
                                self.too_big = True
                                break
                    if self.too_big:
                        break
                if not produced:
                    self.reduced_states.append(k)
                if self.too_big:
                    break
            frontier = nxt
        self.derivable = set()
        for k in self.states:
            for e in k:
                if e[0] != "R":
                    self.derivable.add(e)
        self.reduced_values = set()
        for k in self.reduced_states:
            for e in k:
                if e[0] != "R":
                    self.reduced_values.add(e[0])

    def path_ok(self, production, target):
        """is production = (ids..., rule names...) a path from an initial sequence with these
        ids to a sequence containing target (value, mstart, mend)?"""
        ids = tuple(p for p in production if isinstance(p, int))
        names = [p for p in production if isinstance(p, str)]
        if list(production) != list(ids) + names:
            return False, "ids and rule names are interleaved"
        cur = {k for k in self.initial if tuple(e[1] for e in k) == ids}
        if not cur:
            return False, "no maximal-coverage sequence has pattern ids {}".format(ids)
        for i, nme in enumerate(names):
            nxt = set()
            for k in cur:
                nxt |= self.edges.get(k, {}).get(nme, set())
            if not nxt:
                return False, "rule #{} ({}) is not applicable after {}".format(i, nme, names[:i])
            cur = nxt
        if not any(target in k for k in cur):
            return False, "derivation {} does not end in a sequence containing the candidate".format(names)
        return True, ""


class Purity:
    """wrap the registry in place with argument-snapshotting wrappers"""

    def __init__(self):
        m, R, T = _lib()
        self.R, self.T = R, T
        self.viol = []

    def snap(self, x):
        T = self.T
        if isinstance(x, T.RegexMatch):
            return ("R", x.id, x.mstart, x.mend)
        if isinstance(x, T.Interval):
            return (value(x), x.mstart, x.mend,
                    None if x.t_from is None else (x.t_from.mstart, x.t_from.mend),
                    None if x.t_to is None else (x.t_to.mstart, x.t_to.mend))
        return (value(x), x.mstart, x.mend)

    def __enter__(self):
        self.orig = dict(self.R.rules)

        def mk(name, w):
            def pw(ts, *args):
                before = [self.snap(a) for a in args]
                res = w(ts, *args)
                after = [self.snap(a) for a in args]
                if before != after and len(self.viol) < 20:
                    self.viol.append((name, before, after))
                return res
            return pw

        for n, (w, pats) in self.orig.items():
            self.R.rules[n] = (mk(n, w), pats)
        return self

    def __exit__(self, *a):
        for n, v in self.orig.items():
            self.R.rules[n] = v


def check(text, ts, scorer_spec, depth, clo=None):
    """-> (fails, closure)"""
    m, R, T = _lib()
    if clo is None:
        clo = Closure(text, ts)
    if clo.too_big:
        return None, clo
    fails = []
    with Purity() as pur:
        snaps = []
        cands = []
        try:
            for c in m.ctparse_gen(text, ts, timeout=0, max_stack_depth=depth,
                                   scorer=gen.scorer_from_spec(scorer_spec), latent_time=False):
                if c is None:
                    continue
                cands.append(c)
                snaps.append(pur.snap(c.resolution))
        except Exception as e:
            return [("parse-raises(see C01):" + type(e).__name__, repr(e))], clo
        for c, s in zip(cands, snaps):
            if pur.snap(c.resolution) != s:
                fails.append(("candidate-changes-after-being-yielded", "{} became {}".format(s, pur.snap(c.resolution))))
                break
        for name, b, a in pur.viol[:1]:
            fails.append(("rule-alters-its-arguments:" + name, "{} -> {}".format(b, a)))
    streamed_vals = set()
    for c, s in zip(cands, snaps):
        key = (s[0], s[1], s[2])
        streamed_vals.add(s[0])
        if key not in clo.derivable:
            byval = [d for d in clo.derivable if d[0] == s[0]]
            fails.append(("streamed-candidate-not-derivable:" + ("span" if byval else "value"),
                          "{} production {}; derivable with this value: {}".format(key, c.production, byval[:3])))
            continue
        ok, why = clo.path_ok(c.production, key)
        if not ok:
            fails.append(("production-is-not-a-derivation", "{} production {}: {}".format(key, c.production, why)))
    if depth == 0:
        missing = [v for v in clo.reduced_values if v not in streamed_vals]
        if missing:
            fails.append(("reduced-result-not-streamed", "{} of {} fully reduced values missing, e.g. {}".format(
                len(missing), len(clo.reduced_values), sorted(map(repr, missing))[:3])))
    # dedupe buckets
    seen = set()
    out = []
    for b, d in fails:
        if b not in seen:
            seen.add(b)
            out.append((b, d))
    return out, clo


def ref_anchor(v, ts):
    """harness-side statement of latent anchoring: a pure clock time becomes its first occurrence strictly after the
    reference minute; a pure clock range starts at that occurrence of its start and ends at the end time of that day,
    moved 12 h (both hours on the 12h dial and that is enough) or to the next day if it would not be after the start"""
    def pure(t):
        return t is not None and t[1] is None and t[2] is None and t[3] is None and t[4] is not None and t[6] is None and t[7] is None

    if v[0] == "T" and pure(v):
        h, mi = v[4], v[5] or 0
        d = ts.date() if h * 60 + mi > ts.hour * 60 + ts.minute else ts.date() + dt.timedelta(days=1)
        return ("T", d.year, d.month, d.day, h, mi, None, None)
    if v[0] == "I" and pure(v[1]) and pure(v[2]):
        sh, smi, eh, emi = v[1][4], v[1][5] or 0, v[2][4], v[2][5] or 0
        d = ts.date() if sh * 60 + smi > ts.hour * 60 + ts.minute else ts.date() + dt.timedelta(days=1)
        s_ = dt.datetime(d.year, d.month, d.day, sh, smi)
        e_ = dt.datetime(d.year, d.month, d.day, eh, emi)
        if e_ <= s_:
            if sh <= 12 and eh <= 12 and e_ + dt.timedelta(hours=12) > s_:
                e_ += dt.timedelta(hours=12)
            else:
                e_ += dt.timedelta(days=1)
        return ("I", ("T", s_.year, s_.month, s_.day, s_.hour, s_.minute, None, None),
                ("T", e_.year, e_.month, e_.day, e_.hour, e_.minute, None, None))
    return v


def check_latent(text, ts, scorer_spec, depth):
    """the stream with latent_time=True is the stream with latent_time=False, each value anchored - nothing else may
    differ (anchoring happens after the search and must not feed back into it)"""
    m, R, T = _lib()
    try:
        off = [c for c in m.ctparse_gen(text, ts, timeout=0, max_stack_depth=depth, scorer=gen.scorer_from_spec(scorer_spec), latent_time=False) if c]
        on = [c for c in m.ctparse_gen(text, ts, timeout=0, max_stack_depth=depth, scorer=gen.scorer_from_spec(scorer_spec), latent_time=True) if c]
    except Exception as e:
        return [("parse-raises(see C01):" + type(e).__name__, repr(e))]
    a = [(ref_anchor(value(c.resolution), ts), tuple(c.production), c.score) for c in off]
    b = [(value(c.resolution), tuple(c.production), c.score) for c in on]
    if a != b:
        i = next((k for k, (x, y) in enumerate(zip(a, b)) if x != y), min(len(a), len(b)))
        return [("latent-anchoring-feeds-back-into-the-search" if len(a) != len(b) or (i < len(a) and a[i][1:] != b[i][1:]) else "anchored-value-differs",
                 "candidate #{}: expected {} got {} ({} vs {} candidates)".format(i, a[i] if i < len(a) else None, b[i] if i < len(b) else None, len(a), len(b)))]
    return []


SCORERS = ["dummy", "default", ("random", 1), ("random", 2), ("random", 3)]


def run_text(acc, text, ts, origin, scorers, depths):
    n, nseq, maxlen = gen.seq_stats3(text)
    if n == 0 or nseq > 40 or maxlen > 5:
        acc.notes["skipped-outside-bound" if n else "skipped-no-match"] += 1
        return
    try:
        clo = Closure(text, ts)
    except core.HarnessError as e:
        acc.notes["reference-closure-raised(C01 territory)"] += 1
        return
    if clo.too_big:
        acc.inconclusive += 1
        return
    for sc in scorers:
        for depth in depths:
            fails, _ = check(text, ts, sc, depth, clo)
            case = {"text": text, "ts": ts.isoformat(), "scorer": core.jsonable(sc), "depth": depth}
            acc.case((text, case["ts"], repr(sc), depth), nontrivial=(len(clo.chains) >= 2 or clo.napps >= 3),
                     cls=[origin, "depth{}".format(depth), "scorer:" + (sc if isinstance(sc, str) else "random"),
                          "states<=10" if len(clo.states) <= 10 else "states<=100" if len(clo.states) <= 100 else "states>100",
                          "chains>=2" if len(clo.chains) >= 2 else "chains=1"],
                     sample=dict(case, states=len(clo.states), chains=len(clo.chains), rule_applications=clo.napps,
                                 reduced_values=len(clo.reduced_values)))
            for b, d in fails or []:
                acc.fail(b, case, d)
            if depth != 1:
                for b, d in check_latent(text, ts, sc, depth):
                    acc.fail(b, dict(case, latent=True), d)


def _shard(arg):
    pid, seed, n, shard, thorough = arg
    acc = core.Acc(pid)
    corpus = [(t, ts) for t, ts, _ in gen.corpus_texts()]
    strat = st.tuples(
        st.one_of(st.tuples(st.just("soup"), gen.soup_strategy(max_tokens=3)),
                  st.tuples(st.just("soup-dates"), gen.soup_strategy(gen.DATE_POOLS, 3)),
                  st.tuples(st.just("family"), gen.family_strategy()),
                  st.tuples(st.just("corpus"), st.sampled_from([t for t, _ in corpus]))),
        gen.ts_strategy(), st.integers(0, 10 ** 6))

    def body(c):
        (origin, text), ts, k = c
        if k % 5 == 0 and " " in text:
            # a label in the middle of the expression (cut out before matching)
            i = text.index(" ")
            text = text[:i] + " #tag" + text[i:]
        scorers = [SCORERS[0], SCORERS[1], SCORERS[2 + k % 3]] if not thorough else SCORERS
        run_text(acc, text, ts, origin, scorers, [0, 1, 10])

    core.hyp_run(strat, body, n, core.shard_seed(seed, shard))
    return acc


PINNED = ["tomorrow #work 5pm", "12.12.2021 #trip - 14.12.2021", "#a friday #b 9-5 #c", "friday 9-5", "at 8", "tomorrow at 8pm", "8-10", "9-5", "monday 8 to 10", "15.11.2020 - 18.11.2020 3 days",
          "3 days 15.11. - 18.11.2020", "on the 5th", "am 5.", "vor 8", "5.10. 8h", "heute 8 uhr bis 9 uhr",
          "12:30 - 0:15", "5.10.2020 12:30 - 0:15", "morgen früh", "von 9 bis 17"]


def _pinned(arg):
    pid, part = arg
    acc = core.Acc(pid)
    for text in part:
        for ts in (dt.datetime(2020, 2, 25, 12, 34), dt.datetime(2019, 12, 31, 23, 59)):
            run_text(acc, text, ts, "pinned-list", SCORERS, [0, 1, 10])
    return acc


# texts whose unlimited-depth search front grows into the hundreds or thousands of open partial parses (beyond the
# bound of the generated texts); decided exactly against the closure all the same
LARGE = ["late afternoon of January 25th 2017", "August 5th 8h - August 16th 13h", "1 2 3 4"]
LARGE_THOROUGH = ["1 2 3 4 5"]


def _large(arg):
    pid, text, sc = arg
    acc = core.Acc(pid)
    ts = dt.datetime(2020, 2, 25, 12, 34)
    global MAX_STATES
    old, MAX_STATES = MAX_STATES, 100000
    try:
        clo = Closure(text, ts)
    finally:
        MAX_STATES = old
    if clo.too_big:
        acc.inconclusive += 1
        return acc
    fails, _ = check(text, ts, sc, 0, clo)
    case = {"text": text, "ts": ts.isoformat(), "scorer": core.jsonable(sc), "depth": 0}
    acc.case((text, repr(sc)), nontrivial=True, cls=["large-search-front", "depth0", "scorer:" + (sc if isinstance(sc, str) else "random")],
             sample=dict(case, states=len(clo.states), chains=len(clo.chains), reduced_values=len(clo.reduced_values)))
    for b, d in fails or []:
        acc.fail(b, case, d)
    return acc


def run(ctx):
    n = 16000 if ctx.thorough else 1600
    acc = core.pmap_acc(ctx.pid, _shard, [(ctx.pid, ctx.seed, n // 16, i, ctx.thorough) for i in range(16)])
    acc.merge(core.pmap_acc(ctx.pid, _pinned, [(ctx.pid, p) for p in core.chunks(PINNED, 16)]))
    big = [(ctx.pid, t, sc) for t in LARGE + (LARGE_THOROUGH if ctx.thorough else [])
           for sc in ["dummy", "default"] + [("random", k) for k in range(1, 7)]]
    acc.merge(core.pmap_acc(ctx.pid, _large, big))
    return core.finish(ctx, acc, RULE, assumptions=[
        "texts limited to <=40 candidate sequences of <=5 matches; reference closure aborted beyond {} states (inconclusive)".format(MAX_STATES),
        "the reference uses the registered rule functions and predicates, the pattern table and the RegexMatch class; it does not use _match_regex, _regex_stack, _match_rule, PartialParse or the rule pre-filter",
        "completeness is compared by value (the emission table is keyed by value); soundness by (value, span)",
        "latent_time=False (anchoring happens after the search)"],
        shrinker=_shrink)


def _cands(case):
    toks = case["text"].split(" ")
    if len(toks) > 1:
        for i in range(len(toks)):
            yield dict(case, text=" ".join(toks[:i] + toks[i + 1:]))
    if case["scorer"] != "dummy":
        yield dict(case, scorer="dummy")
    if case["ts"] != "2020-01-01T00:00:00":
        yield dict(case, ts="2020-01-01T00:00:00")


def _shrink(case, bucket):
    f = lambda c: (replay(c, bucket) or [None])[0]  # noqa
    c = core.greedy_shrink(case, f, _cands, budget=120)
    r = replay(c, bucket)
    return c, (r[1] if r else None)


def replay(case, bucket=None):
    sc = case["scorer"]
    if isinstance(sc, list):
        sc = tuple(sc)
    if case.get("latent"):
        fails = check_latent(case["text"], core.parse_ts(case["ts"]), sc, case["depth"])
        return fails[0] if fails else None
    try:
        fails, clo = check(case["text"], core.parse_ts(case["ts"]), sc, case["depth"])
    except core.HarnessError:
        return None
    fails = fails or []
    if bucket is not None:
        bucket = bucket.replace("regress:", "")
        fails = [f for f in fails if f[0] == bucket]
    return fails[0] if fails else None
