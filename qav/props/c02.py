"""C02 Every resolution is a well-formed calendar value; accessors never fail."""
import calendar
import datetime as dt
import json
import re

from hypothesis import strategies as st

from .. import core, gen
from ..oracle import N, value

RULE = ("Hypothesis token soup biased to date-assembling, range, duration and modifier tokens (incl. "
        "impossible dates, stacked modifiers, reversed ranges), structured families, the surface forms of the specification grammar used by C03-C08/C20, mutated corpus expressions and "
        "assigned-code-point free text x reference times x latent on/off x depth {10, 0 within the work "
        "bound} - ALL candidates of ctparse_gen plus the returned parse. Oracle (validity predicate "
        "written from the property): month 1-12, hour 0-23, minute 0-59, DOW 0-6, POD a key of "
        "pod_hours, day exists in the month (year-aware), interval with fully dated ends has start <= "
        "end (harness-computed from fields with the documented start/end defaults), .start/.end/.dt "
        "do not raise, 0 <= mstart < mend <= len(normalised text). Non-trivial = distinct (text, ts, "
        "latent, candidate value) whose production applied >= 2 rules or was rewritten by latent "
        "anchoring.")


def _pod_hours():
    core.load_repo()
    import ctparse.types as T
    return T.pod_hours


def time_problems(v, pods):
    """v = ('T', y, m, d, h, mi, dow, pod) -> list of failed clauses"""
    _, y, m, d, h, mi, dow, pod = v
    bad = []
    for name, x in (("year", y), ("month", m), ("day", d), ("hour", h), ("minute", mi), ("DOW", dow)):
        if x is not None and (not isinstance(x, int) or isinstance(x, bool)):
            bad.append(name + "-not-int")
            return bad
    if y is not None and not 1 <= y <= 9999:
        bad.append("year-range")
    if m is not None and not 1 <= m <= 12:
        bad.append("month-range")
    if h is not None and not 0 <= h <= 23:
        bad.append("hour-range")
    if mi is not None and not 0 <= mi <= 59:
        bad.append("minute-range")
    if dow is not None and not 0 <= dow <= 6:
        bad.append("DOW-range")
    if pod is not None and pod not in pods:
        bad.append("unknown-part-of-day")
    if d is not None:
        if not 1 <= d <= 31:
            bad.append("day-range")
        elif m is not None and 1 <= m <= 12:
            yy = y if (y is not None and 1 <= y <= 9999) else 2000
            if d > calendar.monthrange(yy, m)[1]:
                bad.append("day-not-in-month")
    return bad


def _bound(v, pods, end):
    """harness-side start/end instant of a fully dated Time value"""
    _, y, m, d, h, mi, dow, pod = v
    if h is None and pod is not None:
        hour = pods[pod][1 if end else 0]
        minute = (59 if mi is None else mi) if end else (mi or 0)
    else:
        if end:
            hour = h if h is not None else 23
            minute = mi if mi is not None else 59
        else:
            hour = h or 0
            minute = mi or 0
    hour_carry, hour = divmod(hour, 24)  # modified parts of day may end at hour 24+
    return dt.datetime(y, m, d, hour, minute) + dt.timedelta(days=hour_carry)


def wellformed(res, textlen, pods):
    """-> list of (clause, detail)"""
    out = []
    v = value(res)
    kind = v[0]
    if kind == "T":
        for b in time_problems(v, pods):
            out.append((b, ""))
    elif kind == "I":
        if v[1] is None and v[2] is None:
            out.append(("interval-without-ends", ""))
        for side, e in (("from", v[1]), ("to", v[2])):
            if e is not None:
                for b in time_problems(e, pods):
                    out.append((b + "@" + side, ""))
        if not out and v[1] is not None and v[2] is not None:
            full = all(x is not None for x in v[1][1:4]) and all(x is not None for x in v[2][1:4])
            if full:
                s, e = _bound(v[1], pods, False), _bound(v[2], pods, True)
                if s > e:
                    out.append(("interval-start-after-end", "{} > {}".format(s, e)))
    elif kind == "D":
        if not isinstance(v[1], int) or v[1] < 0:
            out.append(("duration-amount", ""))
    else:
        out.append(("unknown-kind", repr(v)))
    if out:
        return out
    # accessors
    try:
        for t_ in ([res] if kind == "T" else [e for e in (res.t_from, res.t_to) if e is not None] if kind == "I" else []):
            for acc_name in ("start", "end"):
                b = getattr(t_, acc_name)
                if not (0 <= b.hour <= 23 and 0 <= (b.minute if b.minute is not None else 0) <= 59):
                    out.append(("accessor-yields-impossible-time", "{}.{} = {!r}".format(t_, acc_name, b)))
        if out:
            return out
        if kind == "T":
            res.start, res.end
            if v[1] is not None and v[2] is not None and v[3] is not None:
                res.dt
        elif kind == "I":
            res.start, res.end
            for e in (res.t_from, res.t_to):
                if e is not None:
                    e.start, e.end
                    if e.year is not None and e.month is not None and e.day is not None:
                        e.dt
    except Exception as ex:
        out.append(("accessor-raises:" + type(ex).__name__, repr(ex)))
    ms, me = res.mstart, res.mend
    if not (isinstance(ms, int) and isinstance(me, int) and 0 <= ms < me <= textlen):
        out.append(("span-outside-text" if (isinstance(ms, int) and isinstance(me, int) and ms < me) else "span-empty-or-inverted",
                    "span {}-{} text length {}".format(ms, me, textlen)))
    return out


def check_text(text, ts, latent, depth, pods):
    """-> (list of failures [(bucket, detail)], list of candidate descriptors
    (value, number of rules applied, rewritten by latent anchoring))"""
    m = core.load_repo()
    fails = []
    descr = []
    tl = len(N(text))
    try:
        cands = [c for c in m.ctparse_gen(text, ts, timeout=0, latent_time=latent, max_stack_depth=depth) if c]
        best = m.ctparse(text, ts, timeout=0, latent_time=latent, max_stack_depth=depth)
        off = None
        if latent:
            off = {value(c.resolution) for c in
                   m.ctparse_gen(text, ts, timeout=0, latent_time=False, max_stack_depth=depth) if c}
    except Exception as e:
        # totality is C01's business; here it only means nothing could be inspected
        return [("parse-raises(see C01):" + type(e).__name__, repr(e))], []
    allc = list(cands)
    if best is not None and best.resolution is not None:
        allc.append(best)
    for c in allc:
        r = c.resolution
        v = value(r)
        names = [p for p in (c.production or ()) if isinstance(p, str)]
        rew = off is not None and v not in off
        descr.append((v, len(names), rew))
        for clause, detail in wellformed(r, tl, pods):
            if clause.startswith("span") or clause.startswith("interval-start") or clause.startswith("accessor"):
                b = clause + ("|latent-rewritten" if rew else "|not-rewritten")
            else:
                b = "{}|last-rule={}".format(clause, (names[-1:] or ["-"])[0])
            fails.append((b, "candidate {!r} production {} :: {}".format(r, c.production, detail)))
    return fails, descr


def run_case(acc, text, ts, latent, depth, origin, pods):
    o, cls = gen.bounded_options(text, {"max_stack_depth": depth}, max_seq=400)
    if o is None:
        acc.notes[cls] += 1
        return
    depth = o["max_stack_depth"]
    fails, descr = check_text(text, ts, latent, depth, pods)
    case = {"text": text, "ts": ts.isoformat(), "latent": latent, "depth": depth}
    if not descr and not fails:
        acc.case(("none", text), False, cls=[origin, "no-candidate"])
        return
    for v, nrules, rew in descr:
        acc.case((text, case["ts"], latent, v), nontrivial=(nrules >= 2 or rew),
                 cls=[origin, cls, "kind:" + v[0], "rules>=2" if nrules >= 2 else "rules<2",
                      "latent-rewritten" if rew else "not-rewritten"],
                 sample=dict(case, candidate=v))
    for b, d in fails:
        acc.fail(b, case, d)


def _shard(arg):
    pid, seed, n, shard = arg
    pods = _pod_hours()
    acc = core.Acc(pid)
    assigned = st.characters(exclude_categories=("Cn", "Cs"))
    strat = st.tuples(
        st.one_of(st.tuples(st.just("soup-dates"), gen.soup_strategy(gen.DATE_POOLS, 5)),
                  st.tuples(st.just("soup-dates"), gen.soup_strategy(gen.DATE_POOLS, 4)),
                  st.tuples(st.just("soup"), gen.soup_strategy(max_tokens=5)),
                  st.tuples(st.just("family"), gen.family_strategy()),
                  st.tuples(st.just("family"), gen.family_strategy()),
                  st.tuples(st.just("mutated-corpus"), gen.mutate_strategy()),
                  st.tuples(st.just("unicode"), st.text(alphabet=assigned, max_size=30))),
        gen.ts_strategy(), st.booleans(), st.sampled_from([10, 10, 10, 0, 1]))

    def body(c):
        (origin, text), ts, latent, depth = c
        run_case(acc, text, ts, latent, depth, origin, pods)

    core.hyp_run(strat, body, n, core.shard_seed(seed, shard))
    return acc


BOUNDARY = ["late last", "early first", "tomorrow late last", "5.5.2020 late late last", "spät letzter", "very late last", "29.02.1900",
            "29 feb 1900", "28.02.1900 - 29.02.1900", "29.02.2000", "5.5.2020 12:30-0:15", "tomorrow 12:45 to 0:10", "tomorrow 12:30 to midnight",
            "31.04.2020", "31.04.", "30.2.", "29.02.2019", "29.2.", "12.02.2020 - 31.", "31.6.2020 8:00",
            "15.-31.6.2020", "30.2. - 5.3.2020", "february 30 2020", "feb 30", "31st of june 2020",
            "monday 31.04.", "31.11. morning", "very early very early morning", "late late late evening",
            "sehr früh sehr früh morgens", "8pm", "8:00", "22-2", "5-5", "9-5", "23:30 - 3:35",
            "12:00 - 0:00", "8:00 pm - 9:00 pm", "friday 9-5", "tomorrow 22-2", "5.10.2020 22:00 - 2:00",
            "5.10.2020 - 3.10.2020", "5.10.2020 - 5.10.2020", "1.1.2020 8:00 - 1.1.2020 7:00",
            "morning - evening", "evening - morning", "5.10.2020 evening - morning", "tomorrow night",
            "late night - early morning", "1.1.2021 very late night", "31.12.2020 late night - early morning",
            "very late night", "5.10. very late evening - very late night", "tomorrow for 2 days",
            "31.1.2020 for 1 month", "noon", "midnight", "24.12. 24:00", "before 8", "after friday",
            "not before 31.04.", "5. - 8.10.2020", "5.10. - 8.10.2020", "30. - 31.04.2020"]


def _boundary(arg):
    pid, part = arg
    pods = _pod_hours()
    acc = core.Acc(pid)
    for text in part:
        for ts in (dt.datetime(2020, 2, 29, 23, 59, 59, 999999), dt.datetime(2019, 1, 31, 8, 0),
                   dt.datetime(2021, 12, 31, 21, 30)):
            for latent in (True, False):
                for depth in (0, 10):
                    run_case(acc, text, ts, latent, depth, "boundary-list", pods)
    return acc


def grammar_texts():
    """surface forms of the specification grammar used by C03-C08 and C20 (so that the validity
    predicate also sees every candidate these sweeps' texts produce)"""
    from .. import grammar as G
    from . import c04, c06, c07, c08, c20
    out = [f for _, _, f in G.rel_forms()]
    out += [t for _, _, t in c04.all_items()]
    out += [t for _, t, _, _, _ in c06.spoken_items()]
    for h, mi in ((0, 0), (0, 30), (12, 0), (12, 30), (23, 59), (8, 5)):
        out += [t for _, t, _, _, _ in c06.items_for_minute(h, mi)]
    out += [t for _, t, _, _, _ in c08.simple_items() if " 3 " in " " + t or t.split(" ")[0] in ("0", "1", "31", "120", "thirtyone", "einunddreißig")]
    for w, side, x in c07.beforeafter_items():
        out.append(w + " " + x[0])
    for sh, eh in ((9, 5), (22, 2), (12, 12), (0, 0), (23, 1), (8, 17), (12, 0), (5, 5)):
        for anchor in c07.ANCHORS:
            for style in ("colon", "bare"):
                out.append(c07.clock_case(sh, 0, eh, 0, " - ", ("", ""), anchor, style, True, c07.ANCHOR_REF)[0])
    k = 0
    for day in c20.DAYS:
        for ci, (tpl, kind) in enumerate(c20.CLOCKS):
            k += 1
            if k % 3:
                continue
            ct = c20.clock_text(tpl, kind, c20.HOURS[k % 8], c20.MINS[k % 3])[0]
            out.append(c20.compose(day, ct, "day-first" if k % 2 else "clock-first", c20.CONNS[k % 4]))
    return sorted(set(out))


def _grammar_shard(arg):
    pid, part = arg
    pods = _pod_hours()
    acc = core.Acc(pid)
    for i, text in enumerate(part):
        for ts in (dt.datetime(2020, 2, 29, 23, 59, 59, 999999), dt.datetime(2021, 3, 10, 11, 20)):
            run_case(acc, text, ts, True, 10, "grammar-forms", pods)
    return acc


def _range_grid(arg):
    """clock ranges over the boundary hours x minute orders x anchors (the corners of the 12h / next-day wrap)"""
    pid, hours = arg
    pods = _pod_hours()
    acc = core.Acc(pid)
    for sh in hours:
        for eh in (0, 1, 11, 12, 13, 23):
            for smi, emi in ((0, 0), (30, 15), (15, 30)):
                for anchor in ("5.5.2020 ", "tomorrow ", "31.12.2021 ", ""):
                    for j in ("-", " to ", " bis "):
                        text = "{}{}:{:02d}{}{}:{:02d}".format(anchor, sh, smi, j, eh, emi)
                        for ts in (dt.datetime(2020, 2, 29, 23, 59, 59), dt.datetime(2021, 3, 10, 11, 20)):
                            run_case(acc, text, ts, True, 10, "range-grid", pods)
    return acc


def run(ctx):
    n = 200000 if ctx.thorough else 8000
    shards = 32 if ctx.thorough else 16
    acc = core.pmap_acc(ctx.pid, _shard, [(ctx.pid, ctx.seed, n // shards, i) for i in range(shards)])
    acc.merge(core.pmap_acc(ctx.pid, _boundary, [(ctx.pid, p) for p in core.chunks(BOUNDARY, 16)]))
    acc.merge(core.pmap_acc(ctx.pid, _range_grid, [(ctx.pid, [h]) for h in (0, 1, 11, 12, 13, 23)]))
    gt = grammar_texts()
    if not ctx.thorough:
        gt = [t for i, t in enumerate(gt) if i % 8 == ctx.seed % 8]
    acc.merge(core.pmap_acc(ctx.pid, _grammar_shard, [(ctx.pid, p) for p in core.chunks(gt, 32)]))
    return core.finish(ctx, acc, RULE, assumptions=[
        "timeout=0; work bound as in C01 (<=400 candidate sequences; depth 0 only for <=40)",
        "span bound is len(reference-normalised text); texts containing '#' therefore get the weaker bound (label stripping only shortens)",
        "free text restricted to code points assigned in Python's unicodedata so that the reference normaliser is authoritative"],
        shrinker=_shrink)


def _fails(case, bucket=None):
    r = replay(case, bucket)
    return r[0] if r else None


def _cands(case):
    text = case["text"]
    toks = text.split(" ")
    if len(toks) > 1:
        for i in range(len(toks)):
            yield dict(case, text=" ".join(toks[:i] + toks[i + 1:]))
    if case["latent"]:
        yield dict(case, latent=False)
    if case["depth"] != 10:
        yield dict(case, depth=10)
    if case["ts"] != "2020-01-01T00:00:00":
        yield dict(case, ts="2020-01-01T00:00:00")


def _shrink(case, bucket):
    c = core.greedy_shrink(case, lambda x: _fails(x, bucket), _cands, budget=200)
    r = replay(c, bucket)
    return c, (r[1] if r else None)


def replay(case, bucket=None):
    pods = _pod_hours()
    fails, _ = check_text(case["text"], core.parse_ts(case["ts"]), case["latent"], case["depth"], pods)
    if bucket is not None:
        bucket = bucket.replace("regress:", "")
        fails = [f for f in fails if f[0] == bucket]
    return fails[0] if fails else None
