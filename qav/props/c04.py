"""C04 Partial dates resolve to the nearest future occurrence, written fields preserved."""
import datetime as dt

from hypothesis import strategies as st

from .. import core
from .. import grammar as G
from .. import oracle as O

RULE = ("Families: weekday + day of month ('Sunday 31.', 'Friday the 13th'), weekday name (every spelling of the frozen vocabulary, 7 days), day of month 1-31 (8 "
        "notations), day+month without year for all 366 pairs incl. 29 Feb (numeric and every month "
        "spelling), parts of day (every spelling of the 10 parts, plus single early/late/very modifiers) "
        "x reference dates x boundary times of day (00:00, 12:43, 23:59:59.999999, the part's own start "
        "hour +-1 minute). quick: Hypothesis sample with half of the dates from the edge set; thorough: "
        "weekdays and days of month over EVERY date of the 2016-2043 cycle, all 366 day+month pairs over "
        "every date of the leap cycle 2016-2019 for two notations, everything else over edge dates. "
        "Oracle (date.toordinal arithmetic): result >= reference date, equals the first matching date "
        "(weekday / day of month strictly after today, day+month today allowed, months/years lacking the "
        "day skipped), written weekday/day/month are those of the result; part of day: today iff its start "
        "hour is still ahead, part of day preserved. Non-trivial = distinct (form, reference time) where "
        "the answer is outside the reference month, the day does not exist in the reference month, or "
        "the pair is 29 Feb.")


def pod_start(key):
    core.load_repo()
    import ctparse.types as T
    return T.pod_hours[key][0]


def expected(fam, par, ref):
    d = ref.date()
    if fam == "wd":
        return O.Tdate(O.next_weekday_strict(d, par))
    if fam == "dom":
        return O.Tdate(O.next_dom_strict(d, par))
    if fam == "doy":
        return O.Tdate(O.next_doy_on_or_after(d, par[1], par[0]))
    if fam == "wddom":
        # first date on or after today that is this weekday AND this day of month (the property fixes no
        # convention for 'today' here: both today and the next one are accepted, see check_item)
        wd, n = par
        c = d
        for _ in range(366 * 30):
            if c.weekday() == wd and c.day == n:
                return O.Tdate(c)
            c += dt.timedelta(days=1)
        raise AssertionError("no such date")
    if fam == "pod":
        h = pod_start(par)
        day = d if h * 60 > ref.hour * 60 + ref.minute else d + dt.timedelta(days=1)
        return O.T(day.year, day.month, day.day, POD=par)
    raise KeyError(fam)


def nontrivial(fam, par, ref, exp):
    d = ref.date()
    if fam == "doy" and tuple(par) == (29, 2):
        return True
    if fam == "wddom":
        return True
    if fam == "dom" and par > O.mdays(d.year, d.month):
        return True
    return (exp[1], exp[2]) != (d.year, d.month)


def check_item(fam, par, text, ref):
    if fam == "doy":
        par = tuple(par)
    if fam == "wddom":
        par = tuple(par)
    exp = expected(fam, par, ref)
    try:
        got = O.bestval(text, ref)
    except Exception as e:
        return ("parse-raises(see C01):" + type(e).__name__, repr(e))
    if got == exp:
        return None
    if fam == "wddom":
        detail = "{!r} at {} -> {} expected {}".format(text, ref.isoformat(), O.vstr(got), O.vstr(exp))
        if got is None or got[0] != "T" or None in got[1:4] or not O.valid_date(got[1], got[2], got[3]):
            return ("wddom:no-date", detail)
        gd = dt.date(got[1], got[2], got[3])
        if gd < ref.date():
            return ("wddom:before-reference-date", detail)
        if gd.weekday() != par[0] or gd.day != par[1]:
            return ("wddom:written-weekday-or-day-not-preserved", detail)
        ed = dt.date(exp[1], exp[2], exp[3])
        if ed == ref.date():
            # today matches: the following occurrence is acceptable as well
            nxt = expected(fam, par, dt.datetime.combine(ref.date() + dt.timedelta(days=1), dt.time(0, 0)))
            if got == nxt:
                return None
        return ("wddom:not-the-nearest-occurrence", detail)
    detail = "{!r} at {} -> {} expected {}".format(text, ref.isoformat(), O.vstr(got), O.vstr(exp))
    if got is None or got[0] != "T" or None in got[1:4]:
        return (fam + ":no-date", detail)
    gd = dt.date(got[1], got[2], got[3]) if O.valid_date(got[1], got[2], got[3]) else None
    if gd is None:
        return (fam + ":impossible-date", detail)
    if gd < ref.date():
        return (fam + ":before-reference-date", detail)
    if fam == "wd" and gd.weekday() != par:
        return ("wd:written-weekday-not-preserved", detail)
    if fam == "dom" and gd.day != par:
        return ("dom:written-day-not-preserved", detail)
    if fam == "doy" and (gd.day, gd.month) != par:
        return ("doy:written-day-or-month-not-preserved", detail)
    ed = dt.date(exp[1], exp[2], exp[3])
    if got[4:] != exp[4:]:
        return (fam + ":extra-or-missing-fields", detail)
    if gd > ed:
        return (fam + ":not-the-nearest-occurrence", detail)
    return (fam + ":earlier-than-the-convention", detail)


def do(acc, fam, par, text, ref, origin):
    exp = expected(fam, tuple(par) if fam in ("doy", "wddom") else par, ref)
    r = check_item(fam, par, text, ref)
    nt = nontrivial(fam, par, ref, exp)
    acc.case((text, ref), nontrivial=nt, cls=[origin, "family:" + fam, "nontrivial" if nt else "same-month"],
             sample={"text": text, "ts": ref.isoformat(), "expected": O.vstr(exp)})
    if r:
        acc.fail(r[0], {"fam": fam, "par": par, "text": text, "ts": ref.isoformat()}, r[1])


def all_items():
    items = []
    for wd in range(7):
        for name in G.WEEKDAY_FORMS[wd] + G.WEEKDAY_SHORT[wd]:
            items.append(("wd", wd, name))
    for n in range(1, 32):
        for f in G.dom_forms(n):
            items.append(("dom", n, f))
    for m in range(1, 13):
        for d in range(1, O.mdays(2020, m) + 1):
            for f in G.doy_forms(d, m):
                items.append(("doy", (d, m), f))
    for wd in range(7):
        for n in (1, 13, 28, 29, 30, 31):
            for tpl in ("{wd} {n}.", "{wd} the {n}th", "{wd} {n}th", "{wdde} {n}.", "{wdde} den {n}."):
                t = tpl.format(wd=G.WEEKDAY_CANON[wd].capitalize(), wdde=G.WEEKDAY_CANON_DE[wd].capitalize(), n=n)
                t = t.replace("1th", "1st").replace("31th", "31st").replace("13st", "13th")
                items.append(("wddom", (wd, n), t))
    for key, forms in G.POD_FORMS.items():
        for f in forms:
            items.append(("pod", key, f))
    for base, words in G.POD_MOD_BASES.items():
        for w in words:
            for mod, pre in G.POD_MODS.items():
                german = any(ch in mod for ch in "üä") or mod.startswith("sehr")
                if german != (w in ("morgens", "nachmittag", "abend", "nacht", "vormittag", "mittag")):
                    continue
                items.append(("pod", pre + base, mod + " " + w))
    return items


def pod_times(key):
    h = pod_start(key)
    out = [dt.time(0, 0), dt.time(23, 59, 59, 999999), dt.time(12, 43)]
    if 0 < h <= 23:
        out += [dt.time(h - 1, 59, 59), dt.time(h, 0), dt.time(h, 0, 30), dt.time(h, 1)]
    return out


def _quick_shard(arg):
    pid, seed, n, shard = arg
    acc = core.Acc(pid)
    items = all_items()
    byfam = {}
    for it in items:
        byfam.setdefault(it[0], []).append(it)
    edges = O.edge_dates()
    strat = st.tuples(st.sampled_from(sorted(byfam)).flatmap(lambda f: st.sampled_from(byfam[f])),
                      st.one_of(st.sampled_from(edges), st.dates(O.CYCLE_START, O.CYCLE_END)),
                      st.integers(0, 6))

    def body(c):
        (fam, par, text), d, ti = c
        times = pod_times(par) if fam == "pod" else O.SWEEP_TIMES + [dt.time(8, 30)]
        do(acc, fam, par, text, dt.datetime.combine(d, times[ti % len(times)]), "sampled")

    core.hyp_run(strat, body, n, core.shard_seed(seed, shard))
    return acc


def _cycle_shard(arg):
    pid, dates = arg
    acc = core.Acc(pid)
    for i, d in enumerate(dates):
        ref = dt.datetime.combine(d, O.SWEEP_TIMES[i % 3])
        for wd in range(7):
            do(acc, "wd", wd, G.WEEKDAY_CANON[wd] if i % 2 else G.WEEKDAY_CANON_DE[wd], ref, "full-cycle")
        for n in range(1, 32):
            do(acc, "dom", n, G.dom_forms(n)[i % 2], ref, "full-cycle")
    return acc


def _leap_shard(arg):
    pid, dates = arg
    acc = core.Acc(pid)
    for i, d in enumerate(dates):
        ref = dt.datetime.combine(d, O.SWEEP_TIMES[i % 3])
        for m in range(1, 13):
            for day in range(1, O.mdays(2020, m) + 1):
                do(acc, "doy", (day, m), "{}.{}.".format(day, m), ref, "leap-cycle-all-pairs")
                do(acc, "doy", (day, m), "{} {}".format(G.MONTH_CANON[m - 1], day), ref, "leap-cycle-all-pairs")
    return acc


def _forms_shard(arg):
    pid, items, dates = arg
    acc = core.Acc(pid)
    for i, (fam, par, text) in enumerate(items):
        for j, d in enumerate(dates):
            times = pod_times(par) if fam == "pod" else O.SWEEP_TIMES
            do(acc, fam, par, text, dt.datetime.combine(d, times[(i + j) % len(times)]), "all-forms-edge-dates")
    return acc


def _vocab_shard(arg):
    """every month spelling x every day+month template, every weekday spelling and every part-of-day spelling once per
    run (deterministic; the sampled part may miss a single spelling)"""
    pid, seed, months = arg
    acc = core.Acc(pid)
    edges = O.edge_dates()
    for m in months:
        for k, nm in enumerate(G.MONTH_FORMS[m - 1]):
            day = 1 + (7 * m + 3 * k + seed) % O.mdays(2021, m)
            for j, f in enumerate(G.doy_forms(day, m, [nm])):
                d = edges[(seed * 131 + m * 17 + k * 5 + j) % len(edges)]
                do(acc, "doy", (day, m), f, dt.datetime.combine(d, O.SWEEP_TIMES[(j + k) % len(O.SWEEP_TIMES)]), "every-spelling")
    if 1 in months:
        for i, (fam, par, text) in enumerate(all_items()):
            if fam in ("wd", "pod", "dom"):
                d = edges[(seed * 37 + i * 11) % len(edges)]
                times = pod_times(par) if fam == "pod" else O.SWEEP_TIMES
                do(acc, fam, par, text, dt.datetime.combine(d, times[i % len(times)]), "every-spelling")
    return acc


def run(ctx):
    acc = core.Acc(ctx.pid)
    items = all_items()
    subs = []
    acc.merge(core.pmap_acc(ctx.pid, _vocab_shard, [(ctx.pid, ctx.seed, [m]) for m in range(1, 13)]))
    if ctx.thorough:
        dates = list(O.cycle_dates())
        acc.merge(core.pmap_acc(ctx.pid, _cycle_shard, [(ctx.pid, p) for p in core.chunks(dates, 64)]))
        leap = [d for d in dates if d.year <= 2019]
        acc.merge(core.pmap_acc(ctx.pid, _leap_shard, [(ctx.pid, p) for p in core.chunks(leap, 64)]))
        edges = [d for i, d in enumerate(O.edge_dates()) if i % 16 == ctx.seed % 16]
        acc.merge(core.pmap_acc(ctx.pid, _forms_shard, [(ctx.pid, p, edges) for p in core.chunks(items, 64)]))
        subs = ["7 weekdays and 31 days of month x every date 2016-2043", "366 day+month pairs x 2 notations x every date 2016-2019"]
    n = 24000 if ctx.thorough else int(__import__('os').environ.get('QAV_N', 9600))
    acc.merge(core.pmap_acc(ctx.pid, _quick_shard, [(ctx.pid, ctx.seed, n // 16, i) for i in range(16)]))
    return core.finish(ctx, acc, RULE, assumptions=[
        "convention fixed by the property: weekday / day of month equal to today's rolls to the next one; day+month equal to today's stays today",
        "start hours of parts of day are read from the library's own pod_hours table; the mapping spelling -> part of day is frozen in the grammar",
        "bare digits ('5') are not asserted as day of month (ambiguous with the hour reading by design)",
        "default options, timeout=0"], extra={"exhaustive_subdomains": subs, "forms": len(items)})


def replay(case):
    return check_item(case["fam"], case["par"], case["text"], core.parse_ts(case["ts"]))
