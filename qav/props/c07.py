"""C07 Ranges are built from their two ends, ordered, and wrap sensibly."""
import datetime as dt
import os

from hypothesis import strategies as st

from .. import core, gen
from .. import oracle as O

RULE = ("(a) date ranges: pairs of dates (ordered, equal, reversed; same month / month / year crossing) in the "
        "notations date-date, day-date, day.month-date, date-day x every joiner of the frozen joiner "
        "vocabulary (-, /, to, to the, until, til, bis, bis zum, zum, auf, auf den, und, and, no later than, "
        "spätestens, at latest) and between..and / von..bis / from..to / zwischen..und. (b) clock ranges: "
        "ALL 24x24 hour pairs x minute variants {00/00, 30/15, 15/30} x joiners x anchor {explicit date, "
        "tomorrow, weekday, none with latent on, none with latent off} in explicit clock notation (strict: "
        "the returned resolution must equal the oracle) and bare digits (candidate tier: the oracle value "
        "must be among the streamed candidates). (c) every before/after/not-before/not-after alternative "
        "(incl. capitalised spellings) x X in {clock, date, relative day}. (d) part of day (plain and with early/late modifiers, EN/DE) x clock range on the 12h dial: a second-half part of day moves both ends into the pm half, a morning part leaves them. Oracle: start = anchor@A; end = anchor@B if after A, else B+12h "
        "if both written hours <= 12 and that is after A, else B+24h; start < end <= start+24h; reversed or "
        "equal dates never give an interval whose start is not before its end; before/after: open on the "
        "stated side only, bound = X. thorough enumerates (b) completely; quick samples with Hypothesis. "
        "Non-trivial = distinct texts whose written end is not after the start or whose range crosses "
        "midnight or a month end.")

JOINERS = [" - ", "-", " to ", " until ", " til ", " bis ", " bis zum ", " und ", " and ", " to the ", " zum ", " auf ",
           " auf den ", " no later than ", " spätestens ", " at latest ", "–", " / "]
CLOCK_JOINERS = [" - ", "-", " to ", " until ", " til ", " bis ", " und ", " and ", "–"]
WRAPPERS = [("", ""), ("between ", " and "), ("von ", " bis "), ("from ", " to "), ("zwischen ", " und ")]
MINVAR = [(0, 0), (30, 15), (15, 30)]


def T_at(d, h, mi):
    return O.T(d.year, d.month, d.day, h, mi)


def clock_end(sh, smi, eh, emi):
    """-> (end hour, end minute, day offset) by the rule the property states"""
    a = sh * 60 + smi
    b = eh * 60 + emi
    if b > a:
        return eh, emi, 0
    if sh <= 12 and eh <= 12 and b + 720 > a:
        b += 720
    else:
        b += 1440
    return (b // 60) % 24, b % 60, b // 1440


def clock_txt(h, mi, style):
    if style == "colon":
        return "{}:{:02d}".format(h, mi)
    if style == "colon2":
        return "{:02d}:{:02d}".format(h, mi)
    if style == "uhr":
        return "{}:{:02d} Uhr".format(h, mi)
    if style == "bare":
        return "{}".format(h)
    if style == "oclock":
        return "{} o'clock".format(h)   # hour-only clock time: its minute is unset inside the library
    raise KeyError(style)


def norm_t(v):
    if v is not None and v[0] == "T" and v[4] is not None and v[5] is None:
        return v[:5] + (0,) + v[6:]
    return v


def norm(v):
    if v is None:
        return None
    if v[0] == "I":
        return ("I", norm_t(v[1]), norm_t(v[2]))
    return norm_t(v)


ANCHOR_REF = dt.datetime(2021, 3, 10, 11, 20)   # a Wednesday


def anchor_date(anchor, ref):
    if anchor == "date":
        return "5.10.2021", dt.date(2021, 10, 5)
    if anchor == "date-eom":
        return "31.12.2021", dt.date(2021, 12, 31)
    if anchor == "tomorrow":
        return "tomorrow", ref.date() + dt.timedelta(days=1)
    if anchor == "weekday":
        return "friday", O.next_weekday_strict(ref.date(), 4)
    if anchor == "weekday-de":
        return "am montag", O.next_weekday_strict(ref.date(), 0)
    return "", None


def clock_case(sh, smi, eh, emi, joiner, wrapper, anchor, style, latent, ref, anchor_first=True):
    a_txt, a_date = anchor_date(anchor, ref)
    rng = wrapper[0] + clock_txt(sh, smi, style) + (wrapper[1] if wrapper[0] else joiner) + clock_txt(eh, emi, style)
    text = (a_txt + " " + rng if anchor_first else rng + " " + a_txt).strip() if a_txt else rng
    nh, nmi, off = clock_end(sh, smi, eh, emi)
    if a_date is not None:
        exp = ("I", T_at(a_date, sh, smi), T_at(a_date + dt.timedelta(days=off), nh, nmi))
    elif latent:
        start_today = sh * 60 + smi > ref.hour * 60 + ref.minute
        sd = ref.date() if start_today else ref.date() + dt.timedelta(days=1)
        exp = ("I", T_at(sd, sh, smi), T_at(sd + dt.timedelta(days=off), nh, nmi))
    else:
        # without a date only the implicit am->pm shift is expressible
        if sh > eh and sh <= 12 and eh <= 12:
            exp = ("I", O.T(hour=sh, minute=smi), O.T(hour=eh + 12, minute=emi))
        else:
            exp = ("I", O.T(hour=sh, minute=smi), O.T(hour=eh, minute=emi))
    return text, exp


def check_clock(sh, smi, eh, emi, joiner, wrapper, anchor, style, latent, ref, anchor_first=True):
    text, exp = clock_case(sh, smi, eh, emi, joiner, wrapper, anchor, style, latent, ref, anchor_first)
    strict = style != "bare"
    try:
        if strict:
            got = norm(O.bestval(text, ref, latent_time=latent))
            ok = got == exp
        else:
            # candidate tier: with nothing pruned every derivation is streamed; the default beam keeps only ten
            # candidate sequences and may drop the range reading of bare digits (see DESIGN 5.2)
            n_, nseq, maxlen = gen.seq_stats3(text)
            if nseq > 40 or maxlen > 6:
                return text, exp, "skip"   # the complete stream is not enumerable within the work bound: not asserted
            cands = [norm(O.value(c.resolution)) for c in O.cands(text, ref, latent_time=latent, max_stack_depth=0)]
            got = cands
            ok = exp in cands
    except Exception as e:
        return text, exp, ("parse-raises(see C01):" + type(e).__name__, repr(e))
    if ok:
        return text, exp, None
    grp = "{}:{}{}".format("clock" if strict else "bare-digits(candidate-tier)", "dated" if anchor != "none" else ("latent" if latent else "undated"),
                           "" if anchor_first else ":range-first")
    if strict:
        what = classify_interval(got, exp)
        return text, exp, (grp + "|" + what, "{!r} at {} -> {} expected {}".format(text, ref.isoformat(), O.vstr(got), O.vstr(exp)))
    return text, exp, (grp + "|oracle-value-not-among-candidates", "{!r} at {}: {} not in {}".format(text, ref.isoformat(), O.vstr(exp), [O.vstr(c) for c in got][:6]))


def classify_interval(got, exp):
    if got is None:
        return "no-result"
    if got[0] != "I":
        return "not-an-interval"
    if got[1] != exp[1]:
        return "wrong-start"
    if got[2] is None:
        return "end-missing"
    try:
        s = dt.datetime(*got[1][1:6]) if None not in got[1][1:6] else None
        e = dt.datetime(*got[2][1:6]) if None not in got[2][1:6] else None
        if s and e and e <= s:
            return "inverted-or-empty"
        if s and e and e - s > dt.timedelta(hours=24):
            return "longer-than-24h"
    except Exception:
        return "impossible-end"
    return "wrong-end"


# ---------------------------------------------------------------------------------
# date ranges


def date_txt(d, form):
    if form == "dmy":
        return "{}.{}.{}".format(d.day, d.month, d.year)
    if form == "dm":
        return "{}.{}.".format(d.day, d.month)
    if form == "d":
        return "{}.".format(d.day)
    if form == "named":
        return "{} {} {}".format(d.day, ["Jan", "Feb", "Mar", "Apr", "May", "Jun", "Jul", "Aug", "Sep", "Oct", "Nov", "Dec"][d.month - 1], d.year)
    raise KeyError(form)


def check_dates(a, b, shape, joiner, wrapper, ref, depth=10):
    """shape: 'date-date' | 'dom-date' | 'doy-date' | 'date-dom' | 'named-named'"""
    fa, fb = {"date-date": ("dmy", "dmy"), "dom-date": ("d", "dmy"), "doy-date": ("dm", "dmy"), "date-dom": ("dmy", "d"),
              "named-named": ("named", "named")}[shape]
    text = wrapper[0] + date_txt(a, fa) + (wrapper[1] if wrapper[0] else joiner) + date_txt(b, fb)
    try:
        got = norm(O.bestval(text, ref, max_stack_depth=depth))
        allc = [norm(O.value(c.resolution)) for c in O.cands(text, ref, max_stack_depth=depth)]
    except Exception as e:
        return text, ("parse-raises(see C01):" + type(e).__name__, repr(e))
    ordered = a < b
    A, B = O.Tdate(a), O.Tdate(b)
    # every candidate interval with fully dated ends must be ordered
    for c in allc:
        if c is not None and c[0] == "I" and c[1] is not None and c[2] is not None and None not in c[1][1:4] and None not in c[2][1:4]:
            s = dt.date(*c[1][1:4])
            e = dt.date(*c[2][1:4])
            if (s, c[1][4] or 0, c[1][5] or 0) > (e, c[2][4] if c[2][4] is not None else 23, c[2][5] if c[2][5] is not None else 59):
                return text, ("dates:{}|candidate-interval-inverted".format(shape), "{!r} -> candidate {}".format(text, O.vstr(c)))
    if ordered:
        exp = ("I", A, B)
        if got != exp:
            return text, ("dates:{}|{}".format(shape, classify_dates(got, exp)),
                          "{!r} at {} -> {} expected {}".format(text, ref.isoformat(), O.vstr(got), O.vstr(exp)))
    else:
        if got is not None and got[0] == "I" and got[1] is not None and got[2] is not None:
            if None not in got[1][1:4] and None not in got[2][1:4] and dt.date(*got[1][1:4]) >= dt.date(*got[2][1:4]) and got[1][4] is None:
                return text, ("dates:{}|reversed-or-equal-gives-non-increasing-interval".format(shape),
                              "{!r} -> {}".format(text, O.vstr(got)))
    return text, None


def classify_dates(got, exp):
    if got is None:
        return "no-result"
    if got[0] != "I":
        return "not-an-interval"
    if got[1] != exp[1]:
        return "wrong-start"
    return "wrong-end"


# ---------------------------------------------------------------------------------
# before / after

# not listed: 'latest', 'earliest', 'frühestens' and their compounds - the same words are spellings of the
# parts of day 'last' / 'first' (rules.py:126-135), a competing reading by the library's own patterns
BEFORE = ["vor", "before", "bis spätestens", "spätestens", "spätestens bis", "bis", "Before", "Vor", "Bis"]
AFTER = ["nach", "after", "ab", "from", "After", "Ab", "Nach"]
NOT_BEFORE = ["not before", "nicht vor", "Not before", "Nicht vor", "NOT BEFORE"]
NOT_AFTER = ["not after", "nicht nach", "Not after", "Nicht nach", "NICHT NACH"]
XS = [("8:30", O.T(hour=8, minute=30), "clock"), ("17:00", O.T(hour=17, minute=0), "clock"), ("8 Uhr", O.T(hour=8, minute=0), "clock"),
      ("5.10.2021", O.T(2021, 10, 5), "date"), ("31.12.2021", O.T(2021, 12, 31), "date"),
      ("tomorrow", None, "rel"), ("morgen", None, "rel"), ("5.10.2021 8:30", O.T(2021, 10, 5, 8, 30), "datetime")]


def check_beforeafter(word, side, x, ref):
    xt, xv, kind = x
    if xv is None:
        d = ref.date() + dt.timedelta(days=1)
        xv = O.Tdate(d)
    text = word + " " + xt
    exp = ("I", None, xv) if side == "to" else ("I", xv, None)
    try:
        got = norm(O.bestval(text, ref))
    except Exception as e:
        return text, ("parse-raises(see C01):" + type(e).__name__, repr(e))
    if got != exp:
        what = "no-result" if got is None else "not-an-interval" if got[0] != "I" else \
            "open-on-the-wrong-side" if (got[1] is None) != (exp[1] is None) or (got[2] is None) != (exp[2] is None) else "wrong-bound"
        return text, ("{}:{}|{}".format("before" if side == "to" else "after", kind, what),
                      "{!r} at {} -> {} expected {}".format(text, ref.isoformat(), O.vstr(got), O.vstr(exp)))
    return text, None


def beforeafter_items():
    out = []
    for w in BEFORE + NOT_AFTER:
        for x in XS:
            out.append((w, "to", x))
    for w in AFTER + NOT_BEFORE:
        for x in XS:
            out.append((w, "from", x))
    return out


# ---------------------------------------------------------------------------------


# ---------------------------------------------------------------------------------
# (d) part of day x clock range (rules.py:730-769): a part of day of the second half of the day moves a
# range written on the 12h dial into the afternoon/evening; a morning part leaves it alone

POD_RANGE_PM = ["evening", "in the evening", "afternoon", "abends", "nachmittags", "tonight", "in the late evening",
                "late evening", "in the early afternoon", "am späten nachmittag", "früher abend", "at night"]
POD_RANGE_AM = ["morning", "in the morning", "morgens", "vormittags", "in the early morning"]


def check_podrange(pod, pm, sh, eh, wrapper, joiner, anchor, style, ref):
    a_txt, a_date = anchor_date(anchor, ref)
    rng = wrapper[0] + clock_txt(sh, 0, style) + (wrapper[1] if wrapper[0] else joiner) + clock_txt(eh, 0, style)
    text = ((a_txt + " ") if a_txt else "") + pod + " " + rng
    s2, e2 = (sh + 12, eh + 12) if pm else (sh, eh)
    if a_date is not None:
        exp = ("I", T_at(a_date, s2, 0), T_at(a_date, e2, 0))
    else:
        sd = ref.date() if s2 * 60 > ref.hour * 60 + ref.minute else ref.date() + dt.timedelta(days=1)
        exp = ("I", T_at(sd, s2, 0), T_at(sd, e2, 0))
    strict = style != "bare"
    try:
        # candidate tier: nothing pruned (all derivations are streamed at depth 0); these texts have ~40 candidate
        # sequences, more than the default beam keeps
        cands = [norm(O.value(c.resolution)) for c in O.cands(text, ref, max_stack_depth=10 if strict else 0)]
        got = norm(O.bestval(text, ref))
    except Exception as e:
        return text, ("parse-raises(see C01):" + type(e).__name__, repr(e))
    if (got == exp) if strict else (exp in cands):
        return text, None
    return text, ("pod-range:{}|{}".format("pm" if pm else "am", classify_interval(got, exp) if strict else "oracle-value-not-among-candidates"),
                  "{!r} at {} -> {} expected {} (candidates {})".format(text, ref.isoformat(), O.vstr(got), O.vstr(exp), [O.vstr(c) for c in cands][:4]))


def _podrange_shard(arg):
    pid, part = arg
    acc = core.Acc(pid)
    k = 0
    for pod, pm in part:
        for sh, eh in ((8, 9), (2, 4), (6, 8), (1, 11), (9, 10)):
            for anchor in ("tomorrow", "date", "none"):
                for style in ("colon", "bare"):
                    k += 1
                    if style == "bare" and (sh, eh) not in ((8, 9), (2, 4)):
                        continue   # depth 0 costs 1-2 s per text
                    wrapper = WRAPPERS[k % len(WRAPPERS)] if k % 2 else ("", "")
                    joiner = CLOCK_JOINERS[k % len(CLOCK_JOINERS)]
                    if style == "bare":
                        # 'H-H' without blanks is also the month-day notation (6-8 = June 8th): word joiners only
                        joiner = [" to ", " bis ", " until ", " - "][k % 4]
                    text, r = check_podrange(pod, pm, sh, eh, wrapper, joiner, anchor, style, ANCHOR_REF)
                    acc.case((text,), nontrivial=pm, cls=["pod-range", "pm" if pm else "am", "anchor:" + anchor, "style:" + style],
                             sample={"text": text, "ts": ANCHOR_REF.isoformat()})
                    if r:
                        acc.fail(r[0], {"kind": "podrange", "pod": pod, "pm": pm, "sh": sh, "eh": eh, "wrapper": list(wrapper),
                                        "joiner": joiner, "anchor": anchor, "style": style}, r[1])
    return acc


EN_JOINERS = [" - ", "-", " to ", " until ", " til ", " and ", "–"]
EN_WRAPPERS = [("", ""), ("between ", " and "), ("from ", " to ")]


def do_clock(acc, args, origin):
    sh, smi, eh, emi, joiner, wrapper, anchor, style, latent, ref = args[:10]
    if style == "oclock":
        # English notation: English joiners and anchors only (a German 'von .. bis' around "9 o'clock" is not a
        # notation anybody writes; such 8-token mixes only probe the beam, which 5.2 records already)
        h_ = int.from_bytes(core.jhash((sh, eh, joiner, anchor)), "big")
        if joiner not in EN_JOINERS:
            joiner = EN_JOINERS[h_ % len(EN_JOINERS)]
        if tuple(wrapper) not in EN_WRAPPERS:
            wrapper = EN_WRAPPERS[h_ % len(EN_WRAPPERS)]
        if anchor == "weekday-de":
            anchor = "weekday"
        args = (sh, smi, eh, emi, joiner, wrapper, anchor, style, latent, ref) + tuple(args[10:])
    anchor_first = args[10] if len(args) > 10 else True
    text, exp, r = check_clock(sh, smi, eh, emi, joiner, wrapper, anchor, style, latent, ref, anchor_first)
    if r == "skip":
        acc.notes["bare-digit-range-skipped(stream not enumerable within work bound)"] += 1
        return
    wraps = (eh * 60 + emi) <= (sh * 60 + smi)
    acc.case((text, ref, latent), nontrivial=wraps, cls=[origin, "clock-range", "anchor:" + anchor, "style:" + style,
                                                         "end-not-after-start" if wraps else "end-after-start"],
             sample={"text": text, "ts": ref.isoformat(), "latent_time": latent, "expected": O.vstr(exp)})
    if r:
        acc.fail(r[0], {"kind": "clock", "args": [sh, smi, eh, emi, joiner, list(wrapper), anchor, style, latent, ref.isoformat(), anchor_first]}, r[1])


def do_dates(acc, a, b, shape, joiner, wrapper, ref, origin):
    # month-name ranges have 7+ tokens: the glued reading is checked with nothing pruned (depth 0, must hold)
    # and with the default beam (depth 10), where losing an end is the recorded finding C07-beam
    depths = (10,)
    if shape == "named-named":
        # depth 0 costs ~2 s per text: every case in the thorough tier, one in twenty in the quick tier
        h = int.from_bytes(core.jhash((a, b, joiner, wrapper)), "big")
        depths = (0, 10) if (origin == "thorough" or h % 20 == 0) else (10,)
    for depth in depths:
        text, r = check_dates(a, b, shape, joiner, wrapper, ref, depth)
        nt = a >= b or a.month != b.month
        acc.case((text, ref, depth), nontrivial=nt, cls=[origin, "date-range", shape, "depth{}".format(depth),
                                                         "ordered" if a < b else "equal" if a == b else "reversed"],
                 sample={"text": text, "ts": ref.isoformat(), "max_stack_depth": depth})
        if r:
            acc.fail(r[0] + (":depth0" if depth == 0 else ""), {"kind": "dates", "a": a.isoformat(), "b": b.isoformat(), "shape": shape, "joiner": joiner,
                            "wrapper": list(wrapper), "ts": ref.isoformat(), "depth": depth, "clause": r[0].split("|")[-1]}, r[1])


ANCHORS = ["date", "date-eom", "tomorrow", "weekday", "weekday-de", "none"]


def _clock_full_shard(arg):
    pid, pairs, seed = arg
    acc = core.Acc(pid)
    k = seed
    for sh, eh in pairs:
        for smi, emi in MINVAR:
            for anchor in ANCHORS:
                for style in ("colon", "uhr", "bare", "oclock"):
                    k += 1
                    joiner = CLOCK_JOINERS[k % len(CLOCK_JOINERS)]
                    wrapper = WRAPPERS[(k // 7) % len(WRAPPERS)] if k % 3 == 0 else ("", "")
                    if style in ("bare", "oclock") and (smi or emi):
                        continue
                    for latent in ((True, False) if anchor == "none" else (True,)):
                        do_clock(acc, (sh, smi, eh, emi, joiner, wrapper, anchor, style, latent, ANCHOR_REF, True), "all-hour-pairs")
    return acc


def _quick_shard(arg):
    pid, seed, n, shard, thorough = arg
    acc = core.Acc(pid)
    hour = st.one_of(st.integers(0, 23), st.sampled_from([0, 11, 12, 13, 23]))
    refs = st.one_of(st.just(ANCHOR_REF), st.datetimes(dt.datetime(2016, 1, 1), dt.datetime(2043, 12, 31)))
    clock = st.tuples(hour, hour, st.sampled_from(MINVAR), st.sampled_from(CLOCK_JOINERS), st.sampled_from(WRAPPERS + [("", "")] * 5),
                      st.sampled_from(ANCHORS), st.sampled_from(["colon", "colon2", "uhr", "bare", "oclock"]), st.booleans(), refs, st.booleans())
    date = st.dates(dt.date(2019, 1, 1), dt.date(2024, 12, 31))
    dates = st.tuples(date, st.integers(-40, 400), st.sampled_from(["date-date", "dom-date", "doy-date", "date-dom", "named-named"]),
                      st.sampled_from(JOINERS), st.sampled_from(WRAPPERS + [("", "")] * 5), refs)

    def body(c):
        kind, v = c
        if kind == "clock":
            sh, eh, (smi, emi), joiner, wrapper, anchor, style, latent, ref, afirst = v
            if style in ("bare", "oclock"):
                smi = emi = 0
            if anchor != "none":
                latent = True
            do_clock(acc, (sh, smi, eh, emi, joiner, wrapper, anchor, style, latent, ref, True), "sampled")
        else:
            a, delta, shape, joiner, wrapper, ref = v
            b = a + dt.timedelta(days=delta)
            if shape == "named-named" and (a.year in (2020, 2025) or b.year in (2020, 2025)):
                return  # years that read as hh:mm with mm a multiple of 5 (military heuristic): excluded by the property
            if shape in ("dom-date", "date-dom", "doy-date"):
                # these notations borrow month/year from the other end: only same-month (same-year) pairs are expressible
                if shape != "doy-date":
                    b = a.replace(day=min(28, max(1, a.day + delta % 28 - 14))) if delta % 3 else a
                else:
                    b = a + dt.timedelta(days=delta % 200 - 60)
                    if b.year != a.year:
                        return
            do_dates(acc, a, b, shape, joiner, wrapper, ref, "thorough" if thorough else "sampled")

    core.hyp_run(st.one_of(st.tuples(st.just("clock"), clock), st.tuples(st.just("dates"), dates)), body, n,
                 core.shard_seed(seed, shard))
    return acc


def _ba_shard(arg):
    pid, part = arg
    acc = core.Acc(pid)
    for w, side, x in part:
        for ref in (ANCHOR_REF, dt.datetime(2020, 12, 31, 23, 59, 59)):
            text, r = check_beforeafter(w, side, x, ref)
            acc.case((text, ref), nontrivial=True, cls=["before-after", "side:" + side, "x:" + x[2]],
                     sample={"text": text, "ts": ref.isoformat()})
            if r:
                acc.fail(r[0], {"kind": "ba", "word": w, "side": side, "x": [x[0], x[2]], "ts": ref.isoformat()}, r[1])
    return acc


def run(ctx):
    acc = core.pmap_acc(ctx.pid, _ba_shard, [(ctx.pid, p) for p in core.chunks(beforeafter_items(), 16)])
    pods = [(p, True) for p in POD_RANGE_PM] + [(p, False) for p in POD_RANGE_AM]
    acc.merge(core.pmap_acc(ctx.pid, _podrange_shard, [(ctx.pid, p) for p in core.chunks(pods, 16)]))
    subs = []
    if ctx.thorough:
        pairs = [(a, b) for a in range(24) for b in range(24)]
        acc.merge(core.pmap_acc(ctx.pid, _clock_full_shard, [(ctx.pid, p, ctx.seed) for p in core.chunks(pairs, 64)]))
        subs = ["24x24 hour pairs x 3 minute variants x 6 anchors x {colon, Uhr, bare} notation"]
    n = 32000 if ctx.thorough else int(os.environ.get("QAV_N", 8000))
    acc.merge(core.pmap_acc(ctx.pid, _quick_shard, [(ctx.pid, ctx.seed, n // 16, i, ctx.thorough) for i in range(16)]))
    return core.finish(ctx, acc, RULE, assumptions=[
        "explicit clock notations are asserted on the returned resolution; bare digits ('9-5', 'from 9 to 17') are genuinely ambiguous with days of month by the library's design, so only membership of the oracle value in the candidate stream is asserted",
        "English 'until/till X' is a joiner only (no before-form in the patterns); resolutions with hour but no minute equal hh:00",
        "dom-date / date-dom / doy-date notations borrow month and year from the fully written end",
        "the anchor is written before the clock range (the rule base has date x interval, not interval x date)",
        "the \"H o'clock\" notation is combined with English joiners and anchors only",
        "default options, timeout=0"], extra={"exhaustive_subdomains": subs})


def replay(case):
    if case["kind"] == "clock":
        a = list(case["args"])
        a[5] = tuple(a[5])
        a[9] = core.parse_ts(a[9])
        r = check_clock(*a)[2]
        return None if r == "skip" else r
    if case["kind"] == "dates":
        return check_dates(dt.date.fromisoformat(case["a"]), dt.date.fromisoformat(case["b"]), case["shape"], case["joiner"],
                           tuple(case["wrapper"]), core.parse_ts(case["ts"]), case.get("depth", 10))[1]
    if case["kind"] == "podrange":
        return check_podrange(case["pod"], case["pm"], case["sh"], case["eh"], tuple(case["wrapper"]), case["joiner"], case["anchor"],
                              case["style"], ANCHOR_REF)[1]
    x = [t for t in XS if t[0] == case["x"][0]][0]
    return check_beforeafter(case["word"], case["side"], x, core.parse_ts(case["ts"]))[1]
