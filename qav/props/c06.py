"""C06 Every clock notation of one time of day resolves to that hour and minute."""
import datetime as dt
import os

from .. import core
from .. import oracle as O

RULE = ("All 1440 minutes of the day x every clock notation of the frozen vocabulary (24h: H:MM, HH:MM, HhMM, "
        "HuhrMM, H:MM Uhr, HH:MMh, HHMM Uhr, HHMMh, bare HHMM under the documented military heuristic; 12h: "
        "h:MMam/pm, h:MM am, h:MM a.m., h.MMAM, hh:MMpm; on the hour: H Uhr, H uhr, H o'clock, ham, h am, h "
        "a.m., named hours one..twelve / eins..zwölf (+- o'clock/uhr), midnight/mitternacht; spoken "
        "quarter/half before/after x named and digit hours; <hour> in the <part of day> with an "
        "unambiguous hour form) with latent_time=False: same hour and minute, no date fields - enumerated "
        "EXHAUSTIVELY in both tiers. With latent_time=True: reference times on both sides of the requested "
        "minute (same minute with/without seconds, +-1 minute, 23:59->00:00, month end, 31 Dec, 28/29 Feb): "
        "first such time strictly after the reference minute, within 24 h (quick: every 7th minute, "
        "thorough: all 1440). Non-trivial = distinct (notation, h, mi[, ts]) that is a 12 am/12 pm/0h form, a "
        "spoken form, or a latent case answered on the next day.")

F24 = ["{h}:{mi:02d}", "{h:02d}:{mi:02d}", "{h}h{mi:02d}", "{h}uhr{mi:02d}", "{h}:{mi:02d} Uhr", "{h:02d}:{mi:02d}h",
       "{h:02d}:{mi:02d} uhr", "{h:02d}{mi:02d} Uhr", "{h:02d}{mi:02d}h", "um {h}:{mi:02d}", "at {h:02d}:{mi:02d}",
       # the remaining absorbed prepositions (rules.py ruleAbsorbOnTime)
       "approx. {h:02d}:{mi:02d}", "approx {h}:{mi:02d}", "ca. {h}:{mi:02d}", "gegen {h}:{mi:02d} Uhr"]
F12 = ["{h12}:{mi:02d}{ap}", "{h12}:{mi:02d} {ap}", "{h12}:{mi:02d} {a_p}", "{h12}.{mi:02d}{AP}", "{h12:02d}:{mi:02d}{ap}",
       "{h12}:{mi:02d}{a_p}", "at {h12}:{mi:02d} {AP}",
       # the marker pattern is [ap]\.?m\.? : one dot only ('p.m', sentence-final 'pm.') is a spelling too
       "{h12}:{mi:02d} {a_p1}", "{h12}:{mi:02d}{ap}.", "{h12}:{mi:02d} {ap}.",
       "about {h12}:{mi:02d}{ap}", "around {h12}:{mi:02d} {ap}"]
HOUR24 = ["{h} Uhr", "{h} uhr", "{h}uhr", "{h} o'clock", "{h} oclock", "{h:02d} Uhr", "um {h} Uhr"]
HOUR12 = ["{h12}{ap}", "{h12} {ap}", "{h12} {a_p}", "{h12}{AP}", "at {h12}{ap}", "{h12}{ap}.", "{h12} {a_p1}"]
NAMED_EN = ["one", "two", "three", "four", "five", "six", "seven", "eight", "nine", "ten", "eleven", "twelve"]
NAMED_DE = ["eins", "zwei", "drei", "vier", "fünf", "sechs", "sieben", "acht", "neun", "zehn", "elf", "zwölf"]
NAMED_TPL = ["{n}", "{n} o'clock", "{n} uhr", "{n} oclock", "at {n}", "um {n}"]
SPOKEN = [  # (template, delta minutes relative to the named hour)
    ("quarter past {H}", 15), ("a quarter past {H}", 15), ("quarter after {H}", 15), ("one quarter after {H}", 15),
    ("viertel nach {H}", 15), ("quarter to {H}", -15), ("a quarter to {H}", -15), ("quarter before {H}", -15),
    ("quarter till {H}", -15), ("quarter of {H}", -15), ("viertel vor {H}", -15), ("half past {H}", 30),
    ("half after {H}", 30), ("halb nach {H}", 30), ("halb {H}", -30), ("half {H}", -30), ("half to {H}", -30),
    ("half before {H}", -30), ("halb vor {H}", -30),
    # remaining alternatives of the four patterns (tools/vocab_audit.py)
    ("one quarter to {H}", -15), ("one quarter past {H}", 15), ("a quarter after {H}", 15), ("a quarter of {H}", -15),
    ("virtel vor {H}", -15), ("virtel nach {H}", 15), ("half till {H}", -30), ("half of {H}", -30), ("halfe past {H}", 30),
    ("halfe to {H}", -30), ("halfe {H}", -30),
]
POD_PM = ["in the afternoon", "in the evening", "at night", "abends", "nachmittags", "nachts", "tonight",
          # with early/late/very modifiers (rules.py:112-119): still the second half of the day
          "in the late evening", "in the early afternoon", "in the late afternoon", "late at night", "in the early evening",
          "am späten abend", "am frühen nachmittag", "am späten nachmittag", "very late"]
POD_AM = ["in the morning", "morgens", "vormittags", "in the forenoon", "in the early morning", "early in the morning",
          "in the late morning", "very early"]
GERMAN_PODS = ("abends", "nachmittags", "nachts", "morgens", "vormittags", "am späten abend", "am frühen nachmittag", "am späten nachmittag")


def fmt(tpl, h, mi):
    h12 = h % 12 or 12
    ap = "am" if h < 12 else "pm"
    return tpl.format(h=h, mi=mi, h12=h12, ap=ap, AP=ap.upper(), a_p=ap[0] + ".m.", a_p1=ap[0] + ".m")


def items_for_minute(h, mi):
    """(notation id, text, expected hour, expected minute, flags)"""
    out = []
    for t in F24:
        out.append((t, fmt(t, h, mi), h, mi, set()))
    for t in F12:
        out.append((t, fmt(t, h, mi), h, mi, {"12h"} | ({"noon-midnight"} if h % 12 == 0 else set())))
    if mi == 0:
        for t in HOUR24:
            out.append((t, fmt(t, h, mi), h, 0, {"0h"} if h == 0 else set()))
        for t in HOUR12:
            out.append((t, fmt(t, h, mi), h, 0, {"12h"} | ({"noon-midnight"} if h % 12 == 0 else set())))
    return out


def spoken_items():
    out = []
    for n in range(1, 13):
        for names in (NAMED_EN, NAMED_DE):
            nm = names[n - 1]
            for t in NAMED_TPL:
                german_tpl = t.endswith("uhr") or t.startswith("um")
                if german_tpl != (names is NAMED_DE) and t != "{n}":
                    continue
                out.append(("named:" + t, t.format(n=nm), n, 0, {"spoken"}))
            for t, delta in SPOKEN:
                german_tpl = t.startswith("viertel") or t.startswith("halb")
                if german_tpl != (names is NAMED_DE):
                    continue
                tot = (n * 60 + delta) % 1440
                out.append(("spoken:" + t, t.format(H=nm), tot // 60, tot % 60, {"spoken"}))
        for t, delta in SPOKEN:
            tot = (n * 60 + delta) % 1440
            out.append(("spoken-digit:" + t, t.format(H=n), tot // 60, tot % 60, {"spoken"}))
    for w in ("midnight", "mitternacht", "at midnight", "um mitternacht"):
        out.append(("midnight", w, 0, 0, {"spoken", "noon-midnight"}))
    # digit hours 13..23 and 0 with the spoken forms that take any hour
    for n in list(range(13, 24)) + [0]:
        for t, delta in SPOKEN:
            tot = (n * 60 + delta) % 1440
            out.append(("spoken-digit:" + t, t.format(H=n), tot // 60, tot % 60, {"spoken"}))
    # spoken quarter/half forms + part of day ("quarter to one in the afternoon" = 12:45)
    for n in range(1, 12):
        for t, delta in SPOKEN[:3] + SPOKEN[5:8] + SPOKEN[11:15]:
            german_tpl = t.startswith("viertel") or t.startswith("halb")
            tot = (n * 60 + delta) % 1440
            for pod in (POD_PM[:7] if n % 2 else POD_PM[:3]):
                if (pod in GERMAN_PODS) != german_tpl:
                    continue
                nm = (NAMED_DE if german_tpl else NAMED_EN)[n - 1]
                h = tot // 60
                out.append(("spoken-in-pod", t.format(H=nm) + " " + pod, h + 12 if h < 12 else h, tot % 60, {"spoken"}))
    # <hour> in the <part of day>, unambiguous hour forms only
    for n in range(1, 12):
        for pod in POD_PM:
            german = pod in GERMAN_PODS
            forms = ["{} uhr".format(n), "{} uhr".format(NAMED_DE[n - 1]), "{}:30 uhr".format(n)] if german else \
                ["{} o'clock".format(n), NAMED_EN[n - 1], "{} o'clock".format(NAMED_EN[n - 1]), "{}:30".format(n)]
            for f in forms:
                out.append(("hour-in-pod:pm", f + " " + pod, n + 12, 30 if ":30" in f else 0, {"spoken"}))
        for pod in POD_AM:
            german = pod in GERMAN_PODS
            forms = ["{} uhr".format(n), "{} uhr".format(NAMED_DE[n - 1]), "{}:30 uhr".format(n)] if german else \
                ["{} o'clock".format(n), NAMED_EN[n - 1], "{}:30".format(n)]
            for f in forms:
                out.append(("hour-in-pod:am", f + " " + pod, n, 30 if ":30" in f else 0, {"spoken"}))
    return out


def family(nid):
    if nid in F24:
        return "24h"
    if nid in F12:
        return "12h"
    if nid in HOUR24:
        return "hour-24h"
    if nid in HOUR12:
        return "hour-12h"
    return nid.split(":")[0]


def norm(v):
    if v is not None and v[0] == "T" and v[4] is not None and v[5] is None:
        return v[:5] + (0,) + v[6:]
    return v


REF_OFF = dt.datetime(2021, 6, 16, 9, 41)  # irrelevant for latent off (but: military heuristic looks at ts.year)


def check_off(text, h, mi):
    try:
        got = norm(O.bestval(text, REF_OFF, latent_time=False))
    except Exception as e:
        return ("parse-raises(see C01):" + type(e).__name__, repr(e))
    exp = O.T(hour=h, minute=mi)
    if got != exp:
        if got is None:
            what = "no-result"
        elif got[0] != "T" or any(x is not None for x in got[1:4]) or got[6] is not None or got[7] is not None:
            what = "not-a-pure-clock-time"
        elif got[4] != h:
            what = "wrong-hour"
        else:
            what = "wrong-minute"
        return (what, "{!r} (latent off) -> {} expected {}".format(text, O.vstr(got), O.vstr(exp)))
    return None


def check_off_at(text, h, mi, ref):
    """latent off at the SAME reference time right after a latent-on call of the same text"""
    try:
        got = norm(O.bestval(text, ref, latent_time=False))
    except Exception as e:
        return ("parse-raises(see C01):" + type(e).__name__, repr(e))
    exp = O.T(hour=h, minute=mi)
    if got != exp:
        return ("latent-off-after-latent-on:not-a-pure-clock-time", "{!r} at {} with latent_time=False (after a latent_time=True call) -> {} expected {}".format(
            text, ref.isoformat(), O.vstr(got), O.vstr(exp)))
    return None


def check_on(text, h, mi, ref):
    try:
        got = norm(O.bestval(text, ref, latent_time=True))
    except Exception as e:
        return ("parse-raises(see C01):" + type(e).__name__, repr(e))
    today = h * 60 + mi > ref.hour * 60 + ref.minute
    d = ref.date() if today else ref.date() + dt.timedelta(days=1)
    exp = O.T(d.year, d.month, d.day, h, mi)
    if got != exp:
        what = "no-anchored-datetime" if got is None or got[0] != "T" or None in got[1:4] else \
            ("wrong-day" if got[1:4] != exp[1:4] else "wrong-time")
        return ("latent:" + what, "{!r} at {} -> {} expected {}".format(text, ref.isoformat(), O.vstr(got), O.vstr(exp)))
    return None


def refs_for(h, mi):
    base = [dt.date(2021, 6, 16), dt.date(2020, 2, 28), dt.date(2020, 2, 29), dt.date(2019, 2, 28), dt.date(2020, 12, 31),
            dt.date(2021, 4, 30)]
    out = []
    t = dt.datetime.combine(base[0], dt.time(h, mi))
    for delta in (dt.timedelta(0), dt.timedelta(seconds=30), dt.timedelta(minutes=-1), dt.timedelta(minutes=1),
                  dt.timedelta(seconds=-1), dt.timedelta(microseconds=999999)):
        out.append(t + delta)
    for i, b in enumerate(base[1:]):
        out.append(dt.datetime.combine(b, dt.time(23, 59, 59)))
        out.append(dt.datetime.combine(b, dt.time(h, mi)) + dt.timedelta(minutes=(-1) ** i))
    return out


def _off_shard(arg):
    pid, minutes = arg
    acc = core.Acc(pid)
    for h, mi in minutes:
        for nid, text, eh, emi, flags in items_for_minute(h, mi):
            r = check_off(text, eh, emi)
            acc.case((nid, h, mi), nontrivial=bool(flags & {"noon-midnight", "0h"}) or h in (0, 12),
                     cls=["latent-off", "12h" if "12h" in flags else "24h"], sample={"text": text, "latent_time": False})
            if r:
                acc.fail(family(nid) + "|" + r[0], {"text": text, "h": eh, "mi": emi, "latent": False}, r[1])
        # bare HHMM under the military heuristic
        hhmm = h * 100 + mi
        if mi % 5 == 0 and hhmm not in (REF_OFF.year, REF_OFF.year + 1):
            text = "{:02d}{:02d}".format(h, mi)
            r = check_off(text, h, mi)
            acc.case(("HHMM", h, mi), nontrivial=True, cls=["latent-off", "military"], sample={"text": text, "latent_time": False})
            if r:
                acc.fail("military|" + r[0], {"text": text, "h": h, "mi": mi, "latent": False}, r[1])
    return acc


def _military_pm_shard(arg):
    """four-digit time with an am/pm marker ('0820 pm' = 20:20) under reference years that equal the 24h reading"""
    pid, refs = arg
    acc = core.Acc(pid)
    for ref in refs:
        years = {ref.year, (ref.year + 1) if ref.month > 9 else ref.year}
        for h in range(0, 24):
            for mi in range(0, 60, 5):
                h12 = h % 12 or 12
                written = h12 * 100 + mi
                if written in years:
                    continue
                for tpl in ("{:02d}{:02d} {}", "{:02d}{:02d}{}"):
                    text = tpl.format(h12, mi, "am" if h < 12 else "pm")
                    try:
                        got = norm(O.bestval(text, ref, latent_time=False))
                    except Exception as e:
                        acc.fail("military|parse-raises(see C01)", {"text": text, "h": h, "mi": mi, "latent": False, "ts": ref.isoformat()}, repr(e))
                        continue
                    acc.case(("milpm", text, ref.year), nontrivial=(h * 100 + mi) in years, cls=["latent-off", "military+ampm"],
                             sample={"text": text, "ts": ref.isoformat(), "latent_time": False})
                    if got != O.T(hour=h, minute=mi):
                        acc.fail("military+ampm|wrong-or-missing", {"text": text, "h": h, "mi": mi, "latent": False, "ts": ref.isoformat()},
                                 "{!r} at {} -> {} expected {:02d}:{:02d}".format(text, ref.isoformat(), O.vstr(got), h, mi))
    return acc


def _spoken_shard(arg):
    pid, part = arg
    acc = core.Acc(pid)
    for nid, text, eh, emi, flags in part:
        r = check_off(text, eh, emi)
        acc.case((nid, text), nontrivial=True, cls=["latent-off", "spoken"], sample={"text": text, "latent_time": False})
        if r:
            acc.fail(family(nid) + "|" + r[0], {"text": text, "h": eh, "mi": emi, "latent": False}, r[1])
        ref = dt.datetime(2021, 6, 16, eh, emi)
        for rr in (ref, ref - dt.timedelta(minutes=1)):
            r = check_on(text, eh, emi, rr)
            acc.case((nid, text, rr), nontrivial=True, cls=["latent-on", "spoken"], sample={"text": text, "ts": rr.isoformat()})
            if r:
                acc.fail(family(nid) + "|" + r[0], {"text": text, "h": eh, "mi": emi, "latent": True, "ts": rr.isoformat()}, r[1])
    return acc


def _on_shard(arg):
    pid, minutes = arg
    acc = core.Acc(pid)
    for k, (h, mi) in enumerate(minutes):
        its = items_for_minute(h, mi)
        for j, ref in enumerate(refs_for(h, mi)):
            nid, text, eh, emi, flags = its[(k + j) % len(its)]
            r = check_on(text, eh, emi, ref)
            if not r and j % 3 == 0:
                r = check_off_at(text, eh, emi, ref)
                if not r:
                    r = check_on(text, eh, emi, ref)
            nextday = not (eh * 60 + emi > ref.hour * 60 + ref.minute)
            acc.case((nid, h, mi, ref), nontrivial=nextday, cls=["latent-on", "answer-next-day" if nextday else "answer-same-day"],
                     sample={"text": text, "ts": ref.isoformat()})
            if r:
                acc.fail(family(nid) + "|" + r[0], {"text": text, "h": eh, "mi": emi, "latent": True, "ts": ref.isoformat()}, r[1])
    return acc


def run(ctx):
    minutes = [(h, mi) for h in range(24) for mi in range(60)]
    acc = core.pmap_acc(ctx.pid, _off_shard, [(ctx.pid, p) for p in core.chunks(minutes, 48)])
    acc.merge(core.pmap_acc(ctx.pid, _spoken_shard, [(ctx.pid, p) for p in core.chunks(spoken_items(), 32)]))
    mrefs = [dt.datetime(2020, 6, 16, 9, 41), dt.datetime(2025, 3, 1, 9, 41), dt.datetime(2019, 11, 5, 9, 41), dt.datetime(2021, 6, 16, 9, 41)]
    acc.merge(core.pmap_acc(ctx.pid, _military_pm_shard, [(ctx.pid, [r]) for r in mrefs]))
    step = 1 if ctx.thorough else 7
    sel = [m for i, m in enumerate(minutes) if i % step == ctx.seed % step]
    acc.merge(core.pmap_acc(ctx.pid, _on_shard, [(ctx.pid, p) for p in core.chunks(sel, 48)]))
    return core.finish(ctx, acc, RULE, exhaustive=bool(ctx.thorough), assumptions=[
        "a resolution with hour but without minute equals hh:00",
        "bare HHMM is asserted only for minutes that are multiples of 5 and hhmm not in {ts.year, year of ts+3 months} (documented military-time heuristic)",
        "not asserted because the library's own patterns give a competing reading: bare digits ('8'), 'H.MM' without am/pm (reads as day.month), 'H.MM am' with a blank (the date pattern explicitly allows it), 'Hh' ('8h' is also 8 hours), 'H Uhr MM' with blanks",
        "exhaustive = the latent-off product minutes x notations; the latent-on reference times are a fixed boundary set per minute"],
        extra={"exhaustive_subdomains": ["1440 minutes x 18 digit notations (+ on-the-hour, spoken, military) with latent_time=False"]})


def replay(case):
    if case["latent"]:
        ref = core.parse_ts(case["ts"])
        return check_on(case["text"], case["h"], case["mi"], ref) or check_off_at(case["text"], case["h"], case["mi"], ref)
    if case.get("ts"):
        got = norm(O.bestval(case["text"], core.parse_ts(case["ts"]), latent_time=False))
        return None if got == O.T(hour=case["h"], minute=case["mi"]) else ("military+ampm|wrong-or-missing", O.vstr(got))
    return check_off(case["text"], case["h"], case["mi"])
