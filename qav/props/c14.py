"""C14 The returned parse is a best-scoring candidate of the stream, scores are finite."""
import datetime as dt
import json
import math

from hypothesis import strategies as st

from .. import core, gen
from ..oracle import value

RULE = ("Same generators as C01/C02 (token soup, date-biased soup, mutated corpus, bundled corpus "
        "expressions) x reference times x scorer {shipped, constant, seeded random - same seed for both "
        "calls} x latent x depth x relative_match_len, timeout=0. Oracle: ctparse() equals (value, span, "
        "production, score, subject, labels) one streamed candidate whose score is the maximum of the "
        "stream; empty resolution iff stream empty; every score math.isfinite; with latent_time=False a "
        "value is streamed again only with a strictly higher score. Non-trivial = distinct (text, "
        "options) whose stream has >= 2 candidates.")


def tup(c):
    r = c.resolution
    return (value(r), (r.mstart, r.mend) if r is not None else None, tuple(c.production or ()),
            c.score, c.subject, tuple(c.labels or ()))


def check(text, ts, opts):
    """-> (failures [(bucket, detail)], stream length, ties)"""
    m = core.load_repo()
    base = {k: v for k, v in opts.items() if k != "scorer"}
    try:
        lst = [c for c in m.ctparse_gen(text, ts, timeout=0, scorer=gen.scorer_from_spec(opts["scorer"]), **base)]
        r = m.ctparse(text, ts, timeout=0, scorer=gen.scorer_from_spec(opts["scorer"]), **base)
    except Exception as e:
        return [("parse-raises(see C01):" + type(e).__name__, repr(e))], 0, 0
    fails = []
    lst = [c for c in lst if c is not None]
    if not lst:
        if r is None or r.resolution is not None:
            fails.append(("non-empty-result-for-empty-stream", repr(r)))
        return fails, 0, 0
    for c in lst:
        if not isinstance(c.score, (int, float)) or isinstance(c.score, bool) or not math.isfinite(c.score):
            fails.append(("score-not-finite", "{!r} score {!r}".format(c.resolution, c.score)))
    if fails:
        return fails, len(lst), 0
    if r is None or r.resolution is None:
        fails.append(("empty-result-for-non-empty-stream", "stream has {} candidates".format(len(lst))))
        return fails, len(lst), 0
    best = max(c.score for c in lst)
    ties = sum(1 for c in lst if c.score == best)
    rt = tup(r)
    ts_ = [tup(c) for c in lst]
    if rt not in ts_:
        # classify the mismatch
        same_val = [t for t in ts_ if t[0] == rt[0]]
        if not same_val:
            fails.append(("result-not-in-stream:value", "returned {} not among {}".format(rt[0], [t[0] for t in ts_][:6])))
        else:
            diff = [i for i in range(1, 6) if all(t[i] != rt[i] for t in same_val)]
            names = ["value", "span", "production", "score", "subject", "labels"]
            fails.append(("result-not-in-stream:" + "+".join(names[i] for i in diff) if diff else "result-not-in-stream:combination",
                          "returned {} ; stream {}".format(rt, same_val[:3])))
    elif rt[3] != best:
        fails.append(("result-not-best-scoring", "returned score {} but stream maximum {} ({})".format(
            rt[3], best, [(t[0], t[3]) for t in ts_][:8])))
    if not opts["latent_time"]:
        seen = {}
        for t in ts_:
            if t[0] in seen and not t[3] > seen[t[0]]:
                fails.append(("value-restreamed-without-better-score",
                              "{} streamed with score {} after {}".format(t[0], t[3], seen[t[0]])))
                break
            seen[t[0]] = t[3] if t[0] not in seen else max(seen[t[0]], t[3])
    return fails, len(lst), ties


def run_case(acc, text, ts, opts, origin):
    o, cls = gen.bounded_options(text, opts, max_seq=200)
    if o is None:
        acc.notes[cls] += 1
        return
    fails, n, ties = check(text, ts, o)
    case = {"text": text, "ts": ts.isoformat(), "opts": core.jsonable(o)}
    acc.case((text, json.dumps(case["opts"], sort_keys=True), case["ts"]), nontrivial=n >= 2,
             cls=[origin, cls, "stream=0" if n == 0 else ("stream=1" if n == 1 else "stream>=2"),
                  "tie-for-best" if ties >= 2 else "unique-best" if n else "none",
                  "scorer:" + (o["scorer"] if isinstance(o["scorer"], str) else "random"),
                  "latent" if o["latent_time"] else "nolatent"],
             sample=dict(case, stream_len=n))
    for b, d in fails:
        acc.fail(b, case, d)


LONG_PARTS = ["monday 12th of may 2020 5:30pm", "friday 15th of may 2020 6:45pm", "tuesday 19th of may 2020 5:30pm", "5.10.2021 14:30",
              "tomorrow 8pm", "next friday at noon", "March 3rd 2021 quarter past eight", "am 24.12.2022 um 18 Uhr", "8:00 - 9:30",
              "for 3 days", "Dienstag den 8. Mai 2018 um 9:15 Uhr"]


def _shard(arg):
    pid, seed, n, shard = arg
    acc = core.Acc(pid)
    corpus = [t for t, _, _ in gen.corpus_texts()]
    # very long expressions: production traces of 40-60 steps (model log-likelihoods of several hundred nats)
    longs = st.lists(st.sampled_from(LONG_PARTS), min_size=3, max_size=5).map(lambda ps: " - ".join(ps[:2]) + " " + " ".join(ps[2:]))
    strat = st.tuples(
        st.one_of(st.tuples(st.just("soup"), gen.soup_strategy(max_tokens=5)),
                  st.tuples(st.just("soup-dates"), gen.soup_strategy(gen.DATE_POOLS, 4)),
                  st.tuples(st.just("family"), gen.family_strategy()),
                  st.tuples(st.just("mutated-corpus"), gen.mutate_strategy()),
                  st.tuples(st.just("corpus"), st.sampled_from(corpus)),
                  st.tuples(st.just("long-expression"), longs)),
        gen.ts_strategy(), gen.options_strategy())

    def body(c):
        (origin, text), ts, opts = c
        run_case(acc, text, ts, opts, origin)

    core.hyp_run(strat, body, n, core.shard_seed(seed, shard))
    return acc


def run(ctx):
    n = 200000 if ctx.thorough else 6400
    shards = 32 if ctx.thorough else 16
    acc = core.pmap_acc(ctx.pid, _shard, [(ctx.pid, ctx.seed, n // shards, i) for i in range(shards)])
    return core.finish(ctx, acc, RULE, assumptions=[
        "timeout=0; work bound as in C01", "RandomScorer is seeded identically for the two compared calls"],
        shrinker=_shrink)


def _cands(case):
    text = case["text"]
    toks = text.split(" ")
    if len(toks) > 1:
        for i in range(len(toks)):
            yield dict(case, text=" ".join(toks[:i] + toks[i + 1:]))
    o = case["opts"]
    for k, v in (("latent_time", False), ("relative_match_len", 1.0), ("max_stack_depth", 10), ("scorer", "default")):
        if o.get(k) != v:
            yield dict(case, opts=dict(o, **{k: v}))
    if case["ts"] != "2020-01-01T00:00:00":
        yield dict(case, ts="2020-01-01T00:00:00")


def _shrink(case, bucket):
    f = lambda c: (replay(c, bucket) or [None])[0]  # noqa
    c = core.greedy_shrink(case, f, _cands, budget=200)
    r = replay(c, bucket)
    return c, (r[1] if r else None)


def replay(case, bucket=None):
    opts = dict(case["opts"])
    if isinstance(opts.get("scorer"), list):
        opts["scorer"] = tuple(opts["scorer"])
    fails, _, _ = check(case["text"], core.parse_ts(case["ts"]), opts)
    if bucket is not None:
        bucket = bucket.replace("regress:", "")
        fails = [f for f in fails if f[0] == bucket]
    return fails[0] if fails else None
