"""C12 A parse is a pure function of its arguments: no history, threads or hash seed."""
import datetime as dt
import itertools
import json
import os
import pickle
import random
import subprocess
import sys
import threading

import hypothesis
from hypothesis import HealthCheck, Phase, settings, strategies as st
from hypothesis.stateful import RuleBasedStateMachine, invariant, precondition, rule, run_state_machine_as_test

from .. import core, gen
from ..oracle import value

RULE = ("Pool of (text, ts, options) triples (bundled corpus samples, range/duration/label texts; "
        "options: default, latent off, depth 0/1, relative_match_len 0.5, constant scorer, seeded random "
        "scorer). Baseline = observable tuples (value, span, score, production, subject, labels) of "
        "stream and single-result call computed in a FRESH PYTHONHASHSEED=0 subprocess. (a) Hypothesis "
        "stateful machine: full call / open stream / advance a stream k steps / abandon / close / call "
        "whose scorer raises after j scorings / stream whose scorer raises; invariant: every completed "
        "call or stream equals the baseline, and result objects handed out earlier still read the same; the fresh baseline is also computed with the pool in reverse order (must agree). (b) ALL interleavings of the steps of two streams with "
        "n1+n2 <= 12 steps. (c) 8 threads, switch interval 1e-6, each parsing the shuffled pool. (d) "
        "baseline recomputed under PYTHONHASHSEED 1, 2, 3, random. (e) deep snapshots of rule registry, "
        "pattern tables and model tables before/after; scorer argument compared by pickle. Non-trivial = "
        "distinct histories containing an abandoned or failed call before a compared call; distinct "
        "interleavings that actually alternate; thread runs; hash-seed runs.")

POOL_TEXTS = ["friday 9-5", "8:00 pm - 9:00 pm", "tomorrow 8-10 uhr", "May 5th 2020 8:30 pm", "heute",
              "tomorrow for 2 days", "15.11.2020 - 18.11.2020 3 days", "morgen früh", "#tag call mum at 5",
              "lunch with bob #work #food friday noon", "gargelbabel", "", "at", "1 2 3", "very early morning",
              "between 8 and 10 on monday", "übermorgen um halb acht", "31.04.2020", "22-2", "EOM",
              "next friday", "5.10. - 8.10.", "two days", "now", "12am", "#a #b #c #d tomorrow 5pm",
              "gargelbabel #one #two #three #four", "#zeta #alpha #mid monday #beta #omega", "so mo di #x #y",
              # the same token in different multiplicities / the same word at different offsets
              "tomorrow tomorrow", "tomorrow", "mon tue wed thu", "mon tue", "8pm 9pm 10pm", "8pm 9pm", "5 5 5", "5 5",
              "#work standup tomorrow 9am #team #work", "#a #b #a #c call", "gargelbabel #x #y #x #z",
              "Lunch zzyx Tomorrow #food", "lunch zzyx tomorrow #food", "FRIDAY 9-5 qwv", "friday 9-5 qwv",
              "tomorrow at midnight", "party at midnight", "midnight", "um mitternacht morgen", "noon", "lunch at noon tomorrow"]
# the same expressions in different orders (a memo keyed on the set of expressions rather than the sequence shows
# as history dependence); every ordering gets the same reference time and options
ORDER_FAMILIES = [
    ["5pm", "friday", "next week"], ["march", "5", "monday"], ["tomorrow", "morning", "8"], ["nächsten", "freitag", "17 uhr"],
    ["next", "monday", "3pm", "-", "4pm"], ["5.", "märz", "um 8"], ["of", "march", "5"], ["am", "montag", "früh", "um 9"],
    ["12.12.", "8:00", "abends"], ["first", "of", "may", "noon"], ["in", "3", "days", "5pm"], ["this", "friday", "evening", "7"],
]
OPTS = [
    {},
    {"latent_time": False},
    {"max_stack_depth": 0},
    {"max_stack_depth": 1},
    {"relative_match_len": 0.5},
    {"scorer": "dummy"},
    {"scorer": ["random", 7]},
    {"scorer": ["random", 8], "latent_time": False, "max_stack_depth": 3},
]


def build_pool(seed, size):
    rnd = random.Random(seed)
    texts = list(POOL_TEXTS)
    ct = gen.corpus_texts()
    for i in range(max(0, size - len(texts))):
        texts.append(ct[rnd.randrange(len(ct))][0])
    tss = [dt.datetime(2020, 2, 25, 12, 34), dt.datetime(2019, 12, 31, 23, 59, 59), dt.datetime(2020, 2, 29, 8, 0)]
    pool = []
    # the same text and reference time under both latent settings and two depths (a cache keyed on less than all
    # arguments shows as history dependence)
    twins = [("8:30 pm", {}), ("8:30 pm", {"latent_time": False}), ("friday 9-5", {"latent_time": False}), ("friday 9-5", {}),
             ("20:15", {"latent_time": False}), ("20:15", {}), ("tomorrow 8 yesterday", {"max_stack_depth": 1}), ("tomorrow 8 yesterday", {}),
             ("9-5", {"relative_match_len": 0.5}), ("9-5", {})]
    for t, o in twins:
        pool.append([t, tss[0].isoformat(), dict(o)])
    fams = list(ORDER_FAMILIES)
    for _ in range(4):
        fams.append([rnd.choice(p) for p in rnd.sample([gen.WEEKDAYS, gen.MONTHS, gen.REL, gen.PODS, gen.CLOCK, gen.ORD, gen.DIGITS, gen.CONN], 3)])
    for fi, fam in enumerate(fams):
        perms = list(itertools.permutations(fam))
        rnd.shuffle(perms)
        fo = [{}, {"latent_time": False}, {"scorer": "dummy"}][fi % 3]
        for pm in perms[:3]:
            pool.append([" ".join(pm), tss[fi % len(tss)].isoformat(), dict(fo)])
    for i, t in enumerate(texts):
        o = dict(OPTS[i % len(OPTS)])
        o2, _ = gen.bounded_options(t, dict(o, max_stack_depth=o.get("max_stack_depth", 10)), max_seq=300, max_seq_depth0=30, max_len_depth0=5)
        if o2 is None:
            continue
        if "max_stack_depth" in o:
            o["max_stack_depth"] = o2["max_stack_depth"]
        pool.append([t, tss[i % len(tss)].isoformat(), o])
    return pool


def kwargs(o):
    k = {x: y for x, y in o.items() if x != "scorer"}
    k["timeout"] = 0
    if "scorer" in o:
        k["scorer"] = gen.scorer_from_spec(o["scorer"] if isinstance(o["scorer"], str) else tuple(o["scorer"]))
    return k


def tup(c):
    if c is None:
        return None
    r = c.resolution
    return [repr(value(r)), None if r is None else r.mstart, None if r is None else r.mend,
            None if c.score is None else repr(c.score), repr(c.production), c.subject, list(c.labels or [])]


def observe(entry):
    m = core.load_repo()
    text, ts, o = entry
    ts = core.parse_ts(ts)
    stream = [tup(c) for c in m.ctparse_gen(text, ts, **kwargs(o))]
    single = tup(m.ctparse(text, ts, **kwargs(o)))
    return {"stream": stream, "single": single}


def snapshot():
    """deep, order-sensitive snapshot of everything a parse must not modify"""
    m = core.load_repo()
    import ctparse.rule as R
    snap = {
        "rules": [(n, [getattr(p, "__name__", "?") for p in pats], id(w)) for n, (w, pats) in R.rules.items()],
        "regex_str": sorted(R._regex_str.items()),
        "str_regex": sorted(R._str_regex.items()),
        "regex_ids": [(i, rx.pattern) for i, rx in R._regex.items()],
        "global_regex_is_table": m.global_regex is R._regex,
    }
    sc = core.default_scorer()
    mdl = core.scorer_model(sc)
    if mdl is not None:
        tabs = core.model_tables(mdl)
        if tabs is not None:
            snap["vocab"] = sorted(tabs[0].items())
            snap["prior"] = list(tabs[1])
            snap["ll_neg"], snap["ll_pos"] = tabs[2], tabs[3]
        else:
            # unknown representation: the pickle of the whole model stands in for its tables
            snap["model_pickle"] = pickle.dumps(mdl)
        snap["alpha"] = getattr(mdl.estimator, "alpha", None)
        snap["ngram_range"] = list(getattr(mdl.transformer, "ngram_range", ()))
    import ctparse.types as T
    snap["pod_hours"] = sorted(T.pod_hours.items())
    return snap


def snap_diff(a, b):
    return [k for k in a if a[k] != b.get(k)] + [k for k in b if k not in a]


# ---------------------------------------------------------------------------------
# fresh-process baseline


def fresh_baseline(pool, hashseed, reverse=False):
    if reverse:
        return list(reversed(fresh_baseline(list(reversed(pool)), hashseed)))
    env = dict(os.environ)
    env["PYTHONHASHSEED"] = str(hashseed)
    code = ("import sys, json; sys.path.insert(0, %r); import logging; logging.disable(logging.CRITICAL);"
            "from qav.props import c12; pool = json.load(sys.stdin);"
            "print('@@R@@' + json.dumps([c12.observe(e) for e in pool]))") % core.VERIF
    p = subprocess.run([sys.executable, "-W", "ignore", "-c", code], input=json.dumps(pool), capture_output=True,
                       text=True, env=env, timeout=3600)
    line = [l for l in p.stdout.splitlines() if l.startswith("@@R@@")]
    if p.returncode != 0 or not line:
        raise core.HarnessError("baseline subprocess failed: " + (p.stderr or p.stdout)[-1500:])
    return json.loads(line[0][5:])


# ---------------------------------------------------------------------------------
# (a) stateful machine


class Boom(Exception):
    pass


def raising_scorer(after):
    m = core.load_repo()
    from ctparse.scorer import Scorer
    inner = core.default_scorer()

    class R(Scorer):
        def __init__(self):
            self.n = 0

        def _tick(self):
            self.n += 1
            if self.n > after:
                raise Boom()

        def score(self, txt, ts, pp):
            self._tick()
            return inner.score(txt, ts, pp)

        def score_final(self, txt, ts, pp, prod):
            self._tick()
            return inner.score_final(txt, ts, pp, prod)

    return R()


def run_history(pool, base, hist):
    """plain re-execution of a recorded history (no Hypothesis); -> (bucket, detail) | None"""
    m = core.load_repo()
    open_ = []
    bad = []

    def cmp(kind, idx, got):
        if got != base[idx][kind]:
            bad.append(("result-depends-on-history:" + kind, "entry {}: got {} expected {}".format(
                pool[idx], str(got)[:300], str(base[idx][kind])[:300])))

    for step in hist:
        op = step[0]
        if op == "call":
            t, ts, o = pool[step[1]]
            cmp("single", step[1], tup(m.ctparse(t, core.parse_ts(ts), **kwargs(o))))
        elif op == "stream":
            t, ts, o = pool[step[1]]
            cmp("stream", step[1], [tup(c) for c in m.ctparse_gen(t, core.parse_ts(ts), **kwargs(o))])
        elif op == "open":
            t, ts, o = pool[step[1]]
            open_.append([step[1], m.ctparse_gen(t, core.parse_ts(ts), **kwargs(o)), []])
        elif op == "advance":
            ent = open_[step[1]]
            for _ in range(step[2]):
                try:
                    ent[2].append(tup(next(ent[1])))
                except StopIteration:
                    open_.pop(step[1])
                    cmp("stream", ent[0], ent[2])
                    break
        elif op == "abandon":
            ent = open_.pop(step[1])
            if step[2]:
                ent[1].close()
        elif op == "failing":
            t, ts, o = pool[step[1]]
            kw = kwargs(o)
            kw["scorer"] = raising_scorer(step[2])
            try:
                if step[3]:
                    for _ in m.ctparse_gen(t, core.parse_ts(ts), **kw):
                        pass
                else:
                    m.ctparse(t, core.parse_ts(ts), **kw)
            except Boom:
                pass
        if bad:
            break
    for ent in open_:
        ent[1].close()
    return bad[0] if bad else None


def make_machine(pool, base, acc, pool_id=None):
    m = core.load_repo()
    n = len(pool)

    class Machine(RuleBasedStateMachine):
        def __init__(self):
            super().__init__()
            self.open = []   # [idx, generator, collected]
            self.kept = []
            self.hist = []
            self.disturbed = False

        def _keep(self, objs):
            # results handed out earlier must not be altered by later calls (no aliasing with shared state)
            for c in objs:
                if c is not None and len(self.kept) < 60:
                    self.kept.append((c, tup(c), len(self.hist)))

        def _check_kept(self):
            for c, t, at in self.kept:
                if tup(c) != t:
                    acc.fail("earlier-result-altered-by-later-call", {"history": list(self.hist), "kind": "aliasing", "pool": pool_id},
                             "result handed out at step {} read {} and now reads {}".format(at, t, tup(c)))
                    self.kept = []
                    return

        def _cmp(self, kind, idx, got):
            self._check_kept()
            exp = base[idx][kind]
            case = {"history": list(self.hist), "entry": pool[idx], "kind": kind, "pool": pool_id}
            acc.case(("hist", json.dumps(self.hist)), nontrivial=self.disturbed,
                     cls=["history", "after-abandoned-or-failed" if self.disturbed else "undisturbed", "compare-" + kind],
                     sample={"history": self.hist[-8:], "compared": [pool[idx][0], kind]})
            if got != exp:
                acc.fail("result-depends-on-history:" + kind, case,
                         "entry {} after history of {} steps: got {} expected {}".format(pool[idx], len(self.hist), str(got)[:300], str(exp)[:300]))

        @rule(i=st.integers(0, n - 1))
        def full_call(self, i):
            self.hist.append(["call", i])
            t, ts, o = pool[i]
            r = m.ctparse(t, core.parse_ts(ts), **kwargs(o))
            self._cmp("single", i, tup(r))
            self._keep([r])

        @rule(i=st.integers(0, n - 1))
        def full_stream(self, i):
            self.hist.append(["stream", i])
            t, ts, o = pool[i]
            lst = list(m.ctparse_gen(t, core.parse_ts(ts), **kwargs(o)))
            self._cmp("stream", i, [tup(c) for c in lst])
            self._keep(lst[:3])

        @rule(i=st.integers(0, n - 1))
        def open_stream(self, i):
            if len(self.open) >= 4:
                return
            self.hist.append(["open", i])
            t, ts, o = pool[i]
            self.open.append([i, m.ctparse_gen(t, core.parse_ts(ts), **kwargs(o)), []])

        @precondition(lambda self: self.open)
        @rule(j=st.integers(0, 3), k=st.integers(1, 4))
        def advance(self, j, k):
            j %= len(self.open)
            self.hist.append(["advance", j, k])
            ent = self.open[j]
            for _ in range(k):
                try:
                    ent[2].append(tup(next(ent[1])))
                except StopIteration:
                    self.open.pop(j)
                    self._cmp("stream", ent[0], ent[2])
                    return

        @precondition(lambda self: self.open)
        @rule(j=st.integers(0, 3), close=st.booleans())
        def abandon(self, j, close):
            j %= len(self.open)
            self.hist.append(["abandon", j, close])
            ent = self.open.pop(j)
            if close:
                ent[1].close()
            self.disturbed = True

        @rule(i=st.integers(0, n - 1), after=st.integers(0, 12), stream=st.booleans())
        def failing_call(self, i, after, stream):
            self.hist.append(["failing", i, after, stream])
            t, ts, o = pool[i]
            kw = kwargs(o)
            kw["scorer"] = raising_scorer(after)
            try:
                if stream:
                    for _ in m.ctparse_gen(t, core.parse_ts(ts), **kw):
                        pass
                else:
                    m.ctparse(t, core.parse_ts(ts), **kw)
            except Boom:
                self.disturbed = True

        def teardown(self):
            self._check_kept()
            for ent in self.open:
                try:
                    ent[1].close()
                except Exception:
                    pass

    return Machine


def run_machine(pool, base, acc, seed, examples, steps, pool_id=None):
    M = make_machine(pool, base, acc, pool_id)
    run_state_machine_as_test(
        hypothesis.seed(seed)(M),
        settings=settings(max_examples=examples, stateful_step_count=steps, deadline=None, database=None,
                          derandomize=False, report_multiple_bugs=False, phases=[Phase.generate],
                          suppress_health_check=list(HealthCheck)))


def _machine_shard(arg):
    pid, seed, shard, pool, base, examples, steps, pool_id = arg
    acc = core.Acc(pid)
    before = snapshot()
    run_machine(pool, base, acc, core.shard_seed(seed, shard), examples, steps, pool_id)
    after = snapshot()
    d = snap_diff(before, after)
    acc.case(("snap-machine", shard), nontrivial=True, cls="snapshot-before-after-history", sample={"snapshot_keys": sorted(before)})
    if d:
        acc.fail("module-state-modified:" + ",".join(d), {"history": "stateful shard {}".format(shard), "kind": "snapshot"}, str(d))
    return acc


# ---------------------------------------------------------------------------------
# (b) interleavings


def interleavings(n1, n2):
    for pos in itertools.combinations(range(n1 + n2), n1):
        s = [1] * (n1 + n2)
        for p in pos:
            s[p] = 0
        yield s


def _inter_shard(arg):
    pid, pool, base, pairs = arg
    m = core.load_repo()
    acc = core.Acc(pid)
    for a, b in pairs:
        n1, n2 = len(base[a]["stream"]) + 1, len(base[b]["stream"]) + 1
        for sched in interleavings(n1, n2):
            gens = []
            for idx in (a, b):
                t, ts, o = pool[idx]
                gens.append(m.ctparse_gen(t, core.parse_ts(ts), **kwargs(o)))
            got = [[], []]
            for w in sched:
                try:
                    got[w].append(tup(next(gens[w])))
                except StopIteration:
                    pass
            alternates = sum(1 for x, y in zip(sched, sched[1:]) if x != y)
            acc.case(("inter", a, b, tuple(sched)), nontrivial=alternates >= 2, cls=["interleaving", "alternations>=2" if alternates >= 2 else "alternations<2"],
                     sample={"entries": [pool[a][0], pool[b][0]], "schedule": sched})
            for w, idx in ((0, a), (1, b)):
                if got[w] != base[idx]["stream"]:
                    acc.fail("stream-depends-on-interleaving", {"entries": [pool[a], pool[b]], "schedule": sched, "kind": "interleaving"},
                             "stream {} of {!r} under schedule {}: got {} expected {}".format(w, pool[idx][0], sched, str(got[w])[:300], str(base[idx]["stream"])[:300]))
    return acc


# ---------------------------------------------------------------------------------
# (c) threads


def thread_run(pid, pool, base, seed, rounds):
    m = core.load_repo()
    acc = core.Acc(pid)
    old = sys.getswitchinterval()
    sys.setswitchinterval(1e-6)
    results = {}
    errors = []

    def work(tid):
        rnd = random.Random(seed * 100 + tid)
        order = list(range(len(pool)))
        for _ in range(rounds):
            rnd.shuffle(order)
            for idx in order:
                try:
                    results.setdefault((tid, idx), []).append(observe(pool[idx]))
                except Exception as e:
                    errors.append((tid, idx, repr(e)))

    try:
        ths = [threading.Thread(target=work, args=(i,)) for i in range(8)]
        for t in ths:
            t.start()
        for t in ths:
            t.join()
    finally:
        sys.setswitchinterval(old)
    for (tid, idx), obs in sorted(results.items()):
        for o in obs:
            acc.case(("thread", seed, tid, idx, len(obs)), nontrivial=True, cls="8-threads", sample={"thread": tid, "entry": pool[idx][0]})
            if o != base[idx]:
                acc.fail("result-differs-under-threads", {"entry": pool[idx], "kind": "threads"},
                         "thread {}: got {} expected {}".format(tid, str(o)[:300], str(base[idx])[:300]))
    for tid, idx, e in errors:
        acc.fail("raises-under-threads", {"entry": pool[idx], "kind": "threads"}, e)
    return acc


def run(ctx):
    m = core.load_repo()
    pool = build_pool(ctx.seed, 150 if ctx.thorough else 48)
    acc = core.Acc(ctx.pid)
    snap0 = snapshot()
    default_pickle = pickle.dumps(core.scorer_model(core.default_scorer()))
    base = fresh_baseline(pool, 0)
    # in-process first observation == fresh-process observation
    for idx, e in enumerate(pool):
        got = observe(e)
        acc.case(("fresh-vs-inprocess", idx), nontrivial=False, cls="fresh-process-vs-this-process", sample={"entry": e})
        if got != base[idx]:
            acc.fail("differs-from-fresh-process", {"entry": e, "kind": "fresh"}, "got {} expected {}".format(str(got)[:300], str(base[idx])[:300]))
    # the fresh process itself must not depend on the order in which it meets the pool
    rev = fresh_baseline(pool, 0, reverse=True)
    for idx, e in enumerate(pool):
        acc.case(("fresh-reversed", idx), nontrivial=True, cls="fresh-process-pool-order-reversed", sample={"entry": e})
        if rev[idx] != base[idx]:
            acc.fail("result-depends-on-history:order-of-calls-in-a-fresh-process", {"entry": e, "kind": "order", "pool": [ctx.seed, 150 if ctx.thorough else 48]},
                     "pool parsed first-to-last: {} ; last-to-first: {}".format(str(base[idx])[:300], str(rev[idx])[:300]))
    # (d) hash seeds
    for hs in ["1", "2", "3", "random"]:
        other = fresh_baseline(pool, hs)
        for idx, e in enumerate(pool):
            acc.case(("hashseed", hs, idx), nontrivial=True, cls="hashseed-" + hs, sample={"entry": e, "PYTHONHASHSEED": hs})
            if other[idx] != base[idx]:
                acc.fail("result-depends-on-hash-seed", {"entry": e, "kind": "hashseed", "hashseed": hs},
                         "PYTHONHASHSEED={}: {} vs {}".format(hs, str(other[idx])[:300], str(base[idx])[:300]))
    # (a)
    shards = 16
    examples = (40 if ctx.thorough else 6)
    acc.merge(core.pmap_acc(ctx.pid, _machine_shard, [(ctx.pid, ctx.seed, i, pool, base, examples, 40, [ctx.seed, 150 if ctx.thorough else 48]) for i in range(shards)]))
    # (b)
    small = [i for i in range(len(pool)) if len(base[i]["stream"]) + 1 <= 7]
    pairs = [(a, b) for a in small for b in small if a <= b and len(base[a]["stream"]) + len(base[b]["stream"]) + 2 <= 12
             and len(base[a]["stream"]) + len(base[b]["stream"]) >= 2]
    rnd = random.Random(ctx.seed)
    rnd.shuffle(pairs)
    pairs = pairs[: (200 if ctx.thorough else 24)]
    acc.merge(core.pmap_acc(ctx.pid, _inter_shard, [(ctx.pid, pool, base, p) for p in core.chunks(pairs, 16)]))
    # (c)
    acc.merge(thread_run(ctx.pid, pool, base, ctx.seed, 3 if ctx.thorough else 1))
    # (e)
    snap1 = snapshot()
    d = snap_diff(snap0, snap1)
    acc.case(("snap-main", 0), nontrivial=True, cls="snapshot-before-after-history", sample={"snapshot_keys": sorted(snap0)})
    if d:
        acc.fail("module-state-modified:" + ",".join(d), {"kind": "snapshot", "history": "main process"}, str(d))
    if pickle.dumps(core.scorer_model(core.default_scorer())) != default_pickle:
        acc.fail("scorer-model-modified", {"kind": "snapshot", "history": "main process"}, "pickle of the default model changed")
    return core.finish(ctx, acc, RULE, assumptions=[
        "timeout=0 everywhere; a seeded RandomScorer is part of the arguments (fresh object with the same seed per call)",
        "thread part is a stress run: the harness does not own the thread schedule (DESIGN 7); generator-step interleavings are exhaustive for the listed pairs",
        "floating point scores are compared exactly (same interpreter, same machine)"],
        extra={"pool_size": len(pool), "interleaving_pairs": len(pairs)})


def replay(case):
    m = core.load_repo()
    kind = case.get("kind")
    if kind in ("single", "stream"):
        if case.get("pool"):
            pool = build_pool(case["pool"][0], case["pool"][1])
            base = fresh_baseline(pool, 0)
            return run_history(pool, base, case["history"])
        pool_entry = case["entry"]
        base = fresh_baseline([pool_entry], 0)[0]
        return None if observe(pool_entry) == base else ("differs-from-fresh-process", "")
    if kind == "interleaving":
        a, b = case["entries"]
        base = fresh_baseline([a, b], 0)
        acc = _inter_shard(("C12", [a, b], base, [(0, 1)]))
        for bk, lst in acc.failures.items():
            return (bk, lst[0][1])
        return None
    if kind == "order":
        pool = build_pool(case["pool"][0], case["pool"][1])
        a, b = fresh_baseline(pool, 0), fresh_baseline(pool, 0, reverse=True)
        for i, e in enumerate(pool):
            if e == case["entry"] and a[i] != b[i]:
                return ("result-depends-on-history:order-of-calls-in-a-fresh-process", "{} vs {}".format(str(a[i])[:200], str(b[i])[:200]))
        return None
    if kind == "aliasing":
        pool = build_pool(case["pool"][0], case["pool"][1])
        base = fresh_baseline(pool, 0)
        acc = core.Acc("C12")
        M = make_machine(pool, base, acc, case["pool"])
        return None  # aliasing needs the live objects of the history; re-run the check to reproduce
    if kind in ("fresh", "threads", "hashseed"):
        e = case["entry"]
        base = fresh_baseline([e], 0)[0]
        other = fresh_baseline([e], case.get("hashseed", "0"))[0]
        if observe(e) != base or other != base:
            return ("differs-from-fresh-process", "")
        return None
    return None
