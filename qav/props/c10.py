"""C10 Subject and labels partition the non-time words: nothing invented or leaked."""
import datetime as dt
import os
import re

from hypothesis import strategies as st

from .. import core, gen
from .. import oracle as O
from .c09 import ALPHA, library_matches

RULE = ("Texts assembled (Hypothesis) from a shuffled list of parts - inert words (consonant alphabet, inertness "
        "verified with the library's own patterns on the whole text), ordinary words (may contain pattern "
        "substrings), valid hashtags [A-Za-z_][A-Za-z0-9_-]* (incl. duplicates) and optionally one time "
        "expression - joined by runs of the library's separator characters; each text also without its hashtags "
        "and, when all other words are inert, without the expression (no-match path). Oracle on word lists "
        "(split on blanks and dashes after the reference normaliser): labels = the hashtags in order without "
        "'#'; no subject word starts with '#'; subject words are a subsequence of the input words; every inert "
        "word is kept, in order, with multiplicity; no word lying inside the span of the returned resolution is "
        "kept; removing the hashtags changes neither value nor subject words; the no-match variant has the same "
        "labels and the same subject words as the matched text. Non-trivial = distinct texts with >=1 hashtag and "
        ">=1 inert word around a recognised expression.")

SEPS = [" ", " ", " ", "  ", ", ", " , ", "\t", "; ", " (", ") ", " ", " [", "] ", "\n"]
ORDINARY = ["meeting", "lunch", "call", "Bob", "also", "domino", "satisfaction", "format", "mister", "sonata", "Report",
            "today's", "xmas", "budget", "review", "with", "the", "team", "about", "project", "zoom", "dentist", "Hamburg"]
EXPRS = ["tomorrow", "friday", "8pm", "20:15", "5.10.2021", "next friday", "tomorrow 8pm", "friday 9:00 - 17:00", "May 5th",
         "heute abend", "morgen früh", "in 3 days", "3 days", "noon", "12.12.2021 14:30", "on monday", "am 5.", "übermorgen",
         "8 Uhr", "quarter past eight", "monday morning", "31.12.", "two weeks", "EOM", "9-5"]
HASHTAGS = ["#work", "#a", "#_x", "#Tag2", "#to-do", "#urgent_1", "#B", "#work", "#home-office", "#x9", "#workout", "#ab", "#Tag",
            "#to-do-list", "#x", "#a-b", "#work_"]
LABEL_RE = re.compile(r"#[A-Za-z0-9_-]+")


def matches_with_ids(cleaned):
    core.load_repo()
    import ctparse.rule as R
    out = []
    for rid, rx in R._regex.items():
        for mm in rx.finditer(cleaned, overlapped=True):
            a, b = mm.span("R{}".format(rid))
            out.append((a, b, rid))
    return out


def words_of(s):
    return [w for w in re.split(r"[\s-]+", O.N(s)) if w]


def build(parts, seps, lead, trail):
    out = [lead]
    for i, (kind, txt) in enumerate(parts):
        if i:
            out.append(seps[i % len(seps)])
        out.append(txt)
    out.append(trail)
    return "".join(out)


def analyse(parts, seps, lead, trail, ts, latent):
    """-> list of (bucket, detail); info dict"""
    m = core.load_repo()
    text = build(parts, seps, lead, trail)
    tags = [t[1:] for k, t in parts if k == "tag"]
    inert = [t for k, t in parts if k == "inert"]
    expr = [t for k, t in parts if k == "expr"]
    info = {"text": text, "matched": False}
    fails = []
    try:
        if len(text) % 3 == 0:
            # an earlier call with the same text in another letter case must not influence this one
            m.ctparse(text.swapcase(), ts, timeout=0, latent_time=latent)
        r = m.ctparse(text, ts, timeout=0, latent_time=latent)
    except Exception as e:
        return [("parse-raises(see C01):" + type(e).__name__, repr(e))], info
    if r is None:
        return [("no-result-object", "")], info
    info["matched"] = r.resolution is not None
    # 1 labels
    if list(r.labels) != tags:
        fails.append(("labels-are-not-the-hashtags", "{!r}: labels {} expected {}".format(text, r.labels, tags)))
    sw = [w for w in re.split(r"\s+", r.subject.strip()) if w] if isinstance(r.subject, str) else None
    if sw is None:
        return fails + [("subject-not-a-string", repr(r.subject))], info
    sw2 = words_of(r.subject)
    # 2 hashtags never in the subject
    if any(w.startswith("#") for w in sw):
        fails.append(("hashtag-in-subject", "{!r}: subject {!r}".format(text, r.subject)))
    # 3 subsequence of the input words
    notags = LABEL_RE.sub("", O.N(text))
    inw = [w for w in re.split(r"[\s-]+", notags) if w]
    it = iter(inw)
    if not all(any(w == x for x in it) for w in sw2):
        fails.append(("subject-is-not-a-subsequence-of-the-input-words", "{!r}: subject words {} input words {}".format(text, sw2, inw)))
    # 4 inert words kept, in order, with multiplicity
    kept = [w for w in sw2 if w in set(inert)]
    if kept != inert:
        fails.append(("inert-word-dropped-or-reordered", "{!r}: inert words {} but subject has {} (subject {!r})".format(text, inert, kept, r.subject)))
    # 5 words lying wholly inside a pattern match the resolution was built from are dropped
    if r.resolution is not None:
        cleaned = re.sub(" +", " ", notags).strip()
        lo, hi = r.resolution.mstart, r.resolution.mend
        used_ids = {p for p in (r.production or ()) if isinstance(p, int)}
        used = [(a, b) for a, b, rid in matches_with_ids(cleaned) if rid in used_ids and lo <= a and len(cleaned[:b].rstrip()) <= hi]
        leaked = []
        for mm in re.finditer(r"[^\s-]+", cleaned[lo:hi]):
            a, b = lo + mm.start(), lo + mm.end()
            whole = (a == 0 or cleaned[a - 1].isspace() or cleaned[a - 1] == "-") and (b == len(cleaned) or cleaned[b].isspace() or cleaned[b] == "-")
            if whole and any(ma <= a and b <= mb for ma, mb in used) and mm.group(0) in sw2:
                leaked.append(mm.group(0))
        if leaked:
            fails.append(("word-of-the-resolution-leaks-into-subject", "{!r}: resolution covers {!r}, words {} lie inside matches it was built from, but subject is {!r}".format(
                text, cleaned[lo:hi], leaked, r.subject)))
    info.update(value=O.value(r.resolution), subject_words=sw2, labels=list(r.labels))
    # 6 without hashtags
    if tags:
        parts2 = [p for p in parts if p[0] != "tag"]
        if parts2:
            text2 = build(parts2, seps, lead, trail)
            try:
                r2 = m.ctparse(text2, ts, timeout=0, latent_time=latent)
                v2, s2 = O.value(r2.resolution), words_of(r2.subject)
                if v2 != info["value"]:
                    fails.append(("hashtags-change-the-resolution", "{!r} -> {} but {!r} -> {}".format(text, O.vstr(info["value"]), text2, O.vstr(v2))))
                elif s2 != sw2:
                    fails.append(("hashtags-change-the-subject", "{!r} -> {} but {!r} -> {}".format(text, sw2, text2, s2)))
                if r2.labels != []:
                    fails.append(("labels-without-hashtags", "{!r}: {}".format(text2, r2.labels)))
            except Exception as e:
                fails.append(("parse-raises(see C01):" + type(e).__name__, repr(e)))
    # 7 no-match variant (only when everything else is inert)
    if expr and info["matched"] and all(k in ("inert", "tag", "expr") for k, _ in parts):
        parts3 = [p for p in parts if p[0] != "expr"]
        text3 = build(parts3, seps, lead, trail) if parts3 else ""
        _, spans = library_matches(LABEL_RE.sub("", text3))
        if not spans:
            try:
                r3 = m.ctparse(text3, ts, timeout=0, latent_time=latent)
                if r3.resolution is not None:
                    fails.append(("resolution-from-inert-words", "{!r} -> {}".format(text3, r3.resolution)))
                if list(r3.labels) != tags:
                    fails.append(("labels-differ-on-the-no-match-path", "{!r}: {} expected {}".format(text3, r3.labels, tags)))
                s3 = words_of(LABEL_RE.sub("", r3.subject)) if isinstance(r3.subject, str) else None
                if isinstance(r3.subject, str) and "#" in r3.subject:
                    fails.append(("hashtag-in-subject:no-match-path", "{!r}: subject {!r}".format(text3, r3.subject)))
                if s3 != inert:
                    fails.append(("subject-differs-on-the-no-match-path", "{!r}: subject words {} expected {}".format(text3, s3, inert)))
                if sw2 != inert:
                    # matched path must have kept exactly the inert words when the expression is fully used
                    pass
            except Exception as e:
                fails.append(("parse-raises(see C01):" + type(e).__name__, repr(e)))
            info["nomatch_checked"] = True
    return fails, info


def _shard(arg):
    pid, seed, n, shard = arg
    acc = core.Acc(pid)
    inert_w = st.text(alphabet=ALPHA, min_size=3, max_size=7)
    part = st.one_of(st.tuples(st.just("inert"), inert_w), st.tuples(st.just("inert"), inert_w),
                     st.tuples(st.just("tag"), st.sampled_from(HASHTAGS)), st.tuples(st.just("tag"), st.sampled_from(HASHTAGS)),
                     st.tuples(st.just("word"), st.sampled_from(ORDINARY)))
    corpus = [t for t, _, _ in gen.corpus_texts() if "#" not in t and gen.seq_stats(t)[1] <= 100]
    expr = st.one_of(st.sampled_from(EXPRS), st.sampled_from(EXPRS), st.sampled_from(corpus))
    strat = st.tuples(st.lists(part, min_size=0, max_size=5), st.one_of(st.none(), expr, expr), st.integers(0, 5),
                      st.lists(st.sampled_from(SEPS), min_size=1, max_size=5), st.sampled_from(["", "", " ", "("]),
                      st.sampled_from(["", "", " ", ")", ","]), gen.ts_strategy(), st.booleans(), st.booleans())

    def body(c):
        parts, ex, pos, seps, lead, trail, ts, latent, only_inert = c
        parts = list(parts)
        if only_inert:
            parts = [p for p in parts if p[0] != "word"]
        # derived parts: a hashtag spelled like an inert word of the same text; an inert word that is a
        # proper substring of a word of the expression ('row' in 'tomorrow', 'arch' in 'march')
        inert_here = [t for k, t in parts if k == "inert"]
        if inert_here and pos % 3 == 0:
            parts.insert(pos % (len(parts) + 1), ("tag", "#" + inert_here[pos % len(inert_here)]))
        if ex is not None and pos % 2 == 0:
            ws = [w for w in re.split(r"[^A-Za-zäöüß]+", ex) if len(w) >= 5]
            if ws:
                w = ws[pos % len(ws)]
                a = 1 + pos % (len(w) - 3)
                sub = w[a:a + 3 + pos % 2].lower()
                if len(sub) >= 3 and sub != w.lower():
                    parts.insert((pos // 2) % (len(parts) + 1), ("inert", sub))
        if ex is not None:
            parts.insert(pos % (len(parts) + 1), ("expr", ex))
        if not parts:
            return
        # inertness of the inert words on the whole text
        text = build(parts, seps, lead, trail)
        t, spans = library_matches(LABEL_RE.sub(lambda mm: " " * len(mm.group(0)), O.N(text)))
        bad = False
        for k, w in parts:
            if k == "inert":
                for mm in re.finditer(r"(?<![^\s\-])" + re.escape(w) + r"(?![^\s\-])", t):
                    if any(a < mm.end() and mm.start() < b for a, b in spans):
                        bad = True
        if bad:
            acc.notes["inert-words-not-inert-on-this-text(redrawn)"] += 1
            return
        if gen.seq_stats(text)[1] > 300:
            acc.notes["skipped-too-many-sequences"] += 1
            return
        fails, info = analyse(parts, seps, lead, trail, ts, latent)
        ntag = sum(1 for k, _ in parts if k == "tag")
        ninert = sum(1 for k, _ in parts if k == "inert")
        nt = ntag >= 1 and ninert >= 1 and ex is not None and info.get("matched")
        acc.case((text, ts, latent), nontrivial=nt,
                 cls=["with-expression" if ex else "no-expression", "matched" if info.get("matched") else "no-match-path",
                      "hashtags>=1" if ntag else "hashtags=0", "ordinary-words" if any(k == "word" for k, _ in parts) else "inert-only",
                      "no-match-variant-compared" if info.get("nomatch_checked") else "no-variant"],
                 sample={"text": text, "ts": ts.isoformat(), "subject": info.get("subject_words"), "labels": info.get("labels")})
        for b, d in fails:
            acc.fail(b, {"parts": [list(p) for p in parts], "seps": seps, "lead": lead, "trail": trail, "ts": ts.isoformat(), "latent": latent}, d)

    core.hyp_run(strat, body, n, core.shard_seed(seed, shard))
    return acc


def run(ctx):
    n = 120000 if ctx.thorough else int(os.environ.get("QAV_N", 6400))
    shards = 32 if ctx.thorough else 16
    acc = core.pmap_acc(ctx.pid, _shard, [(ctx.pid, ctx.seed, n // shards, i) for i in range(shards)])
    return core.finish(ctx, acc, RULE, assumptions=[
        "hashtags are generated in the documented syntax and always delimited by separator characters",
        "words that match a pattern but were not used by the returned resolution are unconstrained (the property leaves them open); ordinary words are therefore only subject to the subsequence / hashtag clauses",
        "word lists: split on whitespace and dashes after the reference normaliser (blank runs are not compared)",
        "default options, timeout=0"], shrinker=_shrink)


def _cands(case):
    parts = case["parts"]
    for i in range(len(parts)):
        if len(parts) > 1:
            yield dict(case, parts=parts[:i] + parts[i + 1:])
    if case["seps"] != [" "]:
        yield dict(case, seps=[" "])
    if case["lead"]:
        yield dict(case, lead="")
    if case["trail"]:
        yield dict(case, trail="")
    if case["latent"]:
        yield dict(case, latent=False)


def _shrink(case, bucket):
    f = lambda c: (replay(c, bucket) or [None])[0]  # noqa
    c = core.greedy_shrink(case, f, _cands, budget=80)
    r = replay(c, bucket)
    return c, (r[1] if r else None)


def replay(case, bucket=None):
    parts = [tuple(p) for p in case["parts"]]
    fails, _ = analyse(parts, case["seps"], case["lead"], case["trail"], core.parse_ts(case["ts"]), case["latent"])
    if bucket is not None:
        bucket = bucket.replace("regress:", "")
        fails = [f for f in fails if f[0] == bucket]
    return fails[0] if fails else None
