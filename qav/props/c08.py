"""C08 Durations keep amount and unit; 'X for N units' ends exactly N units later."""
import datetime as dt
import os

from hypothesis import strategies as st

from .. import core
from .. import oracle as O

RULE = ("(a) 'N <unit>' for N = 0..120 in digits and every number word one..thirtyone / ein..einunddreißig "
        "(standard spellings incl. ß/ss, frozen vocabulary) x every unit spelling of minutes, hours, days, "
        "nights, weeks, months (enumerated completely in both tiers); half forms. (b) '<date[ time]> for|für <N "
        "unit>' for start dates of the leap cycle 2020-2023 incl. all month ends, N up to 1500 days / 40 months "
        "/ 200 weeks / 100 hours: interval from the start to start + N units by date.toordinal arithmetic "
        "(months with end-of-month clipping; end carries a time only for hour/minute units). (c) '<N "
        "days|nights> <A - B>', '<A - B> <N ...>', '<A - B> für <N ...>': a candidate built by a consistency "
        "rule exists iff B - A = N days, and then equals (A, B). Candidate tier (oracle value among the "
        "streamed candidates) for 'N h' (N<=23) and 'N night/nacht' (N<=31), which collide with the clock / "
        "day-of-month readings. Non-trivial = distinct (word, unit) pairs in (a); month arithmetic that "
        "clips or crosses a year in (b); consistent and off-by-one ranges in (c).")

UNITS = {
    "minutes": ["minute", "minutes", "minuten", "m"],
    "hours": ["hour", "hours", "stunde", "stunden", "h"],
    "days": ["day", "days", "tag", "tage"],
    "nights": ["night", "nights", "nacht", "nächte", "übernachtung"],
    "weeks": ["week", "weeks", "woche", "wochen"],
    "months": ["month", "months", "monat", "monate"],
}
EN = ["one", "two", "three", "four", "five", "six", "seven", "eight", "nine", "ten", "eleven", "twelve", "thirteen",
      "fourteen", "fifteen", "sixteen", "seventeen", "eighteen", "nineteen", "twenty", "twentyone", "twentytwo",
      "twentythree", "twentyfour", "twentyfive", "twentysix", "twentyseven", "twentyeight", "twentynine", "thirty",
      "thirtyone"]
DE = ["ein", "zwei", "drei", "vier", "fünf", "sechs", "sieben", "acht", "neun", "zehn", "elf", "zwölf", "dreizehn",
      "vierzehn", "fünfzehn", "sechzehn", "siebzehn", "achtzehn", "neunzehn", "zwanzig", "einundzwanzig",
      "zweiundzwanzig", "dreiundzwanzig", "vierundzwanzig", "fünfundzwanzig", "sechsundzwanzig", "siebenundzwanzig",
      "achtundzwanzig", "neunundzwanzig", "dreißig", "einunddreißig"]
DE_ALT = {1: ["eine"], 16: ["sechszehn"], 30: ["dreissig"], 31: ["einunddreissig", "einundreißig"]}
EN_ALT = {1: ["a", "an"]}
HALF = [("half an hour", 30, "minutes"), ("half hour", 30, "minutes"), ("halbe stunde", 30, "minutes"), ("1/2 hour", 30, "minutes"),
        ("half a day", 12, "hours"), ("half day", 12, "hours"), ("halbe tag", 12, "hours"), ("1/2 day", 12, "hours"),
        ("1/2 tag", 12, "hours"), ("halbe std", None, None)]
REF = dt.datetime(2021, 3, 10, 11, 20)


def collides(n_is_digit, n, unit_word):
    """forms whose competing reading is defined by the library's own patterns"""
    if unit_word == "h" and n <= 23 and (n_is_digit or n <= 12):
        return True   # '8 h' = 8 o'clock; 'one h' / 'ein h' = named hour + h
    if unit_word in ("night", "nacht") and n_is_digit and 0 <= n <= 31:
        return True   # '1 night' = the 1st at night, '0 nacht' = 0 o'clock at night
    if unit_word == "m" and n_is_digit:
        return True   # '5 m': single letter, asserted on candidates only
    return False


def check_simple(text, n, unit, strict):
    exp = ("D", n, unit)
    try:
        if strict:
            got = O.bestval(text, REF)
            ok = got == exp
        else:
            got = [O.value(c.resolution) for c in O.cands(text, REF)]
            ok = exp in got
    except Exception as e:
        return ("parse-raises(see C01):" + type(e).__name__, repr(e))
    if ok:
        return None
    if strict:
        what = "no-result" if got is None else "not-a-duration" if got[0] != "D" else "wrong-amount" if got[1] != n else "wrong-unit"
    else:
        what = "oracle-value-not-among-candidates"
    return (what, "{!r} -> {} expected {}".format(text, got if not strict else O.vstr(got) if got and got[0] != "D" else got, exp))


def simple_items():
    out = []
    for unit, words in UNITS.items():
        for w in words:
            for n in range(0, 121):
                out.append(("digits", "{} {}".format(n, w), n, unit, not collides(True, n, w)))
                if n % 10 == 3:
                    out.append(("digits-glued", "{}{}".format(n, w), n, unit, not collides(True, n, w)))
            for i in range(31):
                n = i + 1
                for word in [EN[i]] + EN_ALT.get(n, []):
                    out.append(("word-en", "{} {}".format(word, w), n, unit, not ((word in ("a", "an") and w in ("m", "h")) or collides(False, n, w))))
                for word in [DE[i]] + DE_ALT.get(n, []):
                    out.append(("word-de", "{} {}".format(word, w), n, unit, not collides(False, n, w)))
    for text, n, unit in HALF:
        if n is not None:
            out.append(("half", text, n, unit, True))
    return out


# ---------------------------------------------------------------------------------
# (b) start for duration


def add_unit(start_dt, n, unit):
    if unit in ("days", "nights"):
        return start_dt + dt.timedelta(days=n)
    if unit == "weeks":
        return start_dt + dt.timedelta(days=7 * n)
    if unit == "months":
        return O.add_months(start_dt, n)
    if unit == "hours":
        return start_dt + dt.timedelta(hours=n)
    if unit == "minutes":
        return start_dt + dt.timedelta(minutes=n)
    raise KeyError(unit)


def check_for(start, clock, n, unit, unit_word, conj):
    """start: date; clock: None | (h, mi)"""
    s_txt = "{}.{}.{}".format(start.day, start.month, start.year)
    if clock:
        s_txt += " {}:{:02d}".format(*clock)
    text = "{} {} {} {}".format(s_txt, conj, n, unit_word)
    sdt = dt.datetime(start.year, start.month, start.day, clock[0] if clock else 0, clock[1] if clock else 0)
    try:
        edt = add_unit(sdt, n, unit)
    except OverflowError:
        return text, None
    if edt.year > 9999:
        return text, None
    exp_from = O.T(start.year, start.month, start.day, clock[0], clock[1]) if clock else O.Tdate(start)
    exp_to = O.Tdt(edt) if unit in ("hours", "minutes") else O.Tdate(edt.date())
    exp = ("I", exp_from, exp_to)
    try:
        got = O.bestval(text, REF)
    except Exception as e:
        return text, ("parse-raises(see C01):" + type(e).__name__, repr(e))
    if got != exp:
        what = "no-result" if got is None else "not-an-interval" if got[0] != "I" else "wrong-start" if got[1] != exp_from else \
            "wrong-end:" + unit
        return text, ("for|" + what, "{!r} -> {} expected {}".format(text, O.vstr(got), O.vstr(exp)))
    return text, None


# ---------------------------------------------------------------------------------
# (c) consistency with a date range

CONS_RULES = {"ruleDurationInterval", "ruleIntervalDuration", "ruleIntervalConjDuration"}


def check_cons(a, length, n, unit_word, order):
    b = a + dt.timedelta(days=length)
    rng = "{}.{}.{} - {}.{}.{}".format(a.day, a.month, a.year, b.day, b.month, b.year)
    dur = "{} {}".format(n, unit_word)
    text = {"dur-range": dur + " " + rng, "range-dur": rng + " " + dur, "range-für-dur": rng + " für " + dur,
            "range-for-dur": rng + " for " + dur}[order]
    try:
        cands = O.cands(text, REF, max_stack_depth=0)
    except Exception as e:
        return text, ("parse-raises(see C01):" + type(e).__name__, repr(e))
    built = [c for c in cands if CONS_RULES & set(p for p in c.production if isinstance(p, str))
             and O.value(c.resolution)[0] == "I"]
    exp = ("I", O.Tdate(a), O.Tdate(b))
    consistent = length == n
    if consistent:
        if not any(O.value(c.resolution) == exp for c in built):
            return text, ("consistency|consistent-range-not-accepted", "{!r}: no candidate built by a consistency rule equals {} (built: {})".format(
                text, O.vstr(exp), [O.vstr(O.value(c.resolution)) for c in built][:3]))
    else:
        bad = [c for c in built if O.value(c.resolution)[1] is not None and O.value(c.resolution)[2] is not None]
        if bad:
            return text, ("consistency|inconsistent-range-accepted", "{!r}: range is {} days, duration says {}; built {}".format(
                text, length, n, O.vstr(O.value(bad[0].resolution))))
    wrong = [c for c in built if consistent and O.value(c.resolution) != exp]
    if wrong:
        return text, ("consistency|accepted-range-altered", "{!r}: {}".format(text, O.vstr(O.value(wrong[0].resolution))))
    return text, None


# ---------------------------------------------------------------------------------


def _simple_shard(arg):
    pid, part = arg
    acc = core.Acc(pid)
    for fam, text, n, unit, strict in part:
        r = check_simple(text, n, unit, strict)
        acc.case((text,), nontrivial=True, cls=["simple", fam, "strict" if strict else "candidate-tier", "unit:" + unit],
                 sample={"text": text, "expected": [n, unit], "tier": "strict" if strict else "candidate"})
        if r:
            acc.fail("{}:{}|{}".format(fam, "strict" if strict else "candidate-tier", r[0]),
                     {"kind": "simple", "text": text, "n": n, "unit": unit, "strict": strict}, r[1])
    return acc


def month_ends():
    out = []
    for y in (2020, 2021, 2023):
        for m in range(1, 13):
            out += [dt.date(y, m, O.mdays(y, m)), dt.date(y, m, 1), dt.date(y, m, min(30, O.mdays(y, m))), dt.date(y, m, 29 if m != 2 or y == 2020 else 28)]
    return sorted(set(out))


def _for_shard(arg):
    pid, seed, n, shard = arg
    acc = core.Acc(pid)
    ends = month_ends()
    unit = st.sampled_from(sorted(UNITS))
    strat = st.tuples(st.one_of(st.sampled_from(ends), st.dates(dt.date(2020, 1, 1), dt.date(2023, 12, 31))),
                      st.one_of(st.none(), st.tuples(st.integers(0, 23), st.sampled_from([0, 15, 30, 59]))),
                      unit, st.integers(0, 1500), st.integers(0, 3), st.sampled_from(["for", "für"]))

    def body(c):
        start, clock, u, n_, wi, conj = c
        cap = {"months": 40, "weeks": 200, "hours": 100, "minutes": 600, "days": 1500, "nights": 1500}[u]
        n_ = n_ % (cap + 1)
        # grammatical number (every spelling x every N is already covered, strictly, by family (a))
        sing = {"minutes": ["minute"], "hours": ["hour", "stunde"], "days": ["day", "tag"], "nights": ["übernachtung"],
                "weeks": ["week", "woche"], "months": ["month", "monat"]}[u]
        plur = {"minutes": ["minutes", "minuten"], "hours": ["hours", "stunden"], "days": ["days", "tage"],
                "nights": ["nights", "nächte"], "weeks": ["weeks", "wochen"], "months": ["months", "monate"]}[u]
        words = sing if n_ == 1 else plur
        w = words[wi % len(words)]
        text, r = check_for(start, clock, n_, u, w, conj)
        sdt = dt.datetime(start.year, start.month, start.day)
        clip = u == "months" and O.add_months(sdt, n_).day != start.day
        acc.case((text,), nontrivial=clip or start.day >= 28, cls=["for-duration", "unit:" + u, "month-end-clipping" if clip else "no-clipping",
                                                                  "with-clock" if clock else "date-only"],
                 sample={"text": text})
        if r:
            acc.fail(r[0], {"kind": "for", "start": start.isoformat(), "clock": list(clock) if clock else None, "n": n_, "unit": u,
                            "unit_word": w, "conj": conj}, r[1])

    core.hyp_run(strat, body, n, core.shard_seed(seed, shard))
    return acc


def _year_sweep(arg):
    """the same start day, amount and unit in consecutive years, leap and common, in ONE process (an end date must be
    computed from the whole start date)"""
    pid, mds = arg
    acc = core.Acc(pid)
    for (mth, day) in mds:
        for n_, unit, w in ((2, "days", "days"), (1, "months", "month"), (1, "weeks", "week"), (2, "months", "months"), (3, "nights", "nights"),
                            (12, "months", "months")):
            for year in (2020, 2021, 2022, 2023, 2024, 2021, 2020):
                if not O.valid_date(year, mth, day):
                    continue
                start = dt.date(year, mth, day)
                text, r = check_for(start, None, n_, unit, w, "for")
                acc.case((text, "sweep"), nontrivial=True, cls=["for-duration", "year-sweep", "unit:" + unit], sample={"text": text})
                if r:
                    acc.fail(r[0], {"kind": "for", "start": start.isoformat(), "clock": None, "n": n_, "unit": unit, "unit_word": w, "conj": "for"}, r[1])
    return acc


def _cons_shard(arg):
    pid, seed, n, shard = arg
    acc = core.Acc(pid)
    strat = st.tuples(st.dates(dt.date(2020, 1, 1), dt.date(2023, 11, 30)), st.integers(1, 20),
                      st.sampled_from([0, 0, 0, 1, -1, 2, 7, -365, -366, -730, -1461, -30, -31]),
                      st.sampled_from(["days", "day", "nights", "nächte", "tage", "night"]),
                      st.sampled_from(["dur-range", "range-dur", "range-für-dur", "range-for-dur"]))

    def body(c):
        a, length, off, w, order = c
        if off < -1:
            # the range is N days plus whole years / a month longer than the duration says
            length, off = length - off, off
        n_ = max(0, length + off)
        if w in ("day", "night") and n_ != 1:
            w += "s"
        text, r = check_cons(a, length, n_, w, order)
        acc.case((text,), nontrivial=True, cls=["range-consistency", order, "consistent" if n_ == length else "inconsistent"],
                 sample={"text": text, "range_days": length, "duration_says": n_})
        if r:
            acc.fail(r[0] + ":" + order, {"kind": "cons", "a": a.isoformat(), "length": length, "n": n_, "unit_word": w, "order": order}, r[1])

    core.hyp_run(strat, body, n, core.shard_seed(seed, shard, 3))
    return acc


def run(ctx):
    items = simple_items()
    acc = core.pmap_acc(ctx.pid, _simple_shard, [(ctx.pid, p) for p in core.chunks(items, 64)])
    n = 48000 if ctx.thorough else int(os.environ.get("QAV_N", 4000))
    acc.merge(core.pmap_acc(ctx.pid, _for_shard, [(ctx.pid, ctx.seed, n // 16, i) for i in range(16)]))
    mds = [(2, 28), (2, 27), (2, 29), (1, 31), (12, 30), (2, 25), (1, 30), (3, 31), (11, 30)]
    acc.merge(core.pmap_acc(ctx.pid, _year_sweep, [(ctx.pid, [md]) for md in mds]))
    n2 = 6400 if ctx.thorough else 480
    acc.merge(core.pmap_acc(ctx.pid, _cons_shard, [(ctx.pid, ctx.seed, n2 // 16, i) for i in range(16)]))
    return core.finish(ctx, acc, RULE, assumptions=[
        "number words are written as the property writes them (twentyone, einunddreißig; also dreissig/einunddreissig)",
        "'N h' (N<=23), 'N night/nacht' (N<=31), 'N m' and 'a m'/'an h' are asserted on the candidate stream only (competing clock / day-of-month / month readings by the library's own patterns)",
        "consistency rules are identified by their names in the reported production; run with max_stack_depth=0",
        "month arithmetic clips to the end of the month (31 Jan + 1 month = 28/29 Feb)"],
        extra={"exhaustive_subdomains": ["digits 0..120 and 31 number words x 2 languages x every unit spelling"], "simple_forms": len(items)})


def replay(case):
    if case["kind"] == "simple":
        return check_simple(case["text"], case["n"], case["unit"], case["strict"])
    if case["kind"] == "for":
        return check_for(dt.date.fromisoformat(case["start"]), tuple(case["clock"]) if case["clock"] else None, case["n"], case["unit"],
                         case["unit_word"], case["conj"])[1]
    return check_cons(dt.date.fromisoformat(case["a"]), case["length"], case["n"], case["unit_word"], case["order"])[1]
