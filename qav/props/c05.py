"""C05 Absolute dates/times mean what they say, independent of the reference time."""
import datetime as dt
import os

from hypothesis import strategies as st

from .. import core
from .. import grammar as G
from .. import oracle as O

RULE = ("Valid calendar dates 1990-2029 x notations (d.m.yyyy, dd.mm.yyyy, d/m/yyyy, dd-mm-yyyy, dd.mm.yy for "
        "2000-2029, d <Month> yyyy, d. <Monat> yyyy, <Month> d yyyy, <Month> dth, yyyy, dth of <Month> yyyy "
        "with every month spelling of the frozen vocabulary) x optional clock part (HH:MM, at H:MM, "
        "h:MMpm, um H Uhr) x reference times 1985-2040 (for a third of the cases also reference times on the written day itself, before and after the written clock time, and on the neighbouring days). thorough: ALL 14 610 dates x all numeric "
        "notations and a rotating month-name notation, each under 2 reference times; quick: Hypothesis "
        "sample; both tiers: a boundary set (every 29 Feb 1992-2028, first and last day of every month of a leap, a non-leap and a 19xx year) x ALL notations x reference times in leap and non-leap years. Month-name notations skip the years 2000/05/10/15/20/25 (they read as hh:mm with mm a "
        "multiple of 5 - the documented military-time heuristic). Oracle: the written (y, m, d[, h, mi]); "
        "the same value for every reference time; hence all notations agree. Non-trivial = distinct "
        "(date, notation, clock) with day > 12, a single-digit field or February.")

MIL_YEARS = {2000, 2005, 2010, 2015, 2020, 2025}
NUMERIC = ["{d}.{m}.{y}", "{d:02d}.{m:02d}.{y}", "{d}/{m}/{y}", "{d:02d}-{m:02d}-{y}", "{d:02d}/{m:02d}/{y}", "{d}-{m}-{y}"]
NAMED = ["{d} {M} {y}", "{d}. {M} {y}", "{M} {d} {y}", "{M} {d}{suf}, {y}", "{d}{suf} of {M} {y}", "{d}{suf} {M} {y}", "{M} {d}{suf} {y}",
         # glued: the numeric day-month-year pattern also takes a month name between the separators
         "{d}-{M}-{y}", "{d}.{M}.{y}", "{d}/{M}/{y}", "{d:02d}-{M}-{y}"]
GLUED = NAMED[-4:]
CLOCKS = [None, ("{h:02d}:{mi:02d}", None), ("at {h}:{mi:02d}", None), ("{h12}:{mi:02d}{ap}", None), ("um {h} Uhr", 0), ("{h}:{mi:02d} Uhr", None)]


def suffix(n):
    if n % 10 == 1 and n != 11:
        return "st"
    if n % 10 == 2 and n != 12:
        return "nd"
    if n % 10 == 3 and n != 13:
        return "rd"
    return "th"


def render(date, notation, month_name, clock, h, mi):
    d, m, y = date.day, date.month, date.year
    if notation == "yy":
        txt = "{:02d}.{:02d}.{:02d}".format(d, m, y % 100)
    elif notation in NUMERIC:
        txt = notation.format(d=d, m=m, y=y)
    else:
        mn = month_name.capitalize()
        if notation in GLUED and notation[notation.index("{M}") + 3] == "." and mn.endswith("."):
            mn = mn[:-1]  # 'Jan.' + '.' separator: one dot
        txt = notation.format(d=d, M=mn, y=y, suf=suffix(d))
    exp = O.T(y, m, d)
    if clock is not None:
        tpl, fixed_mi = clock
        if fixed_mi is not None:
            mi = fixed_mi
        h12 = h % 12 or 12
        ap = "am" if h < 12 else "pm"
        txt = txt + " " + tpl.format(h=h, mi=mi, h12=h12, ap=ap)
        exp = O.T(y, m, d, h, mi)
    return txt, exp


def norm(v):
    """minute None == 0 when an hour is present"""
    if v is not None and v[0] == "T" and v[4] is not None and v[5] is None:
        return v[:5] + (0,) + v[6:]
    return v


def check_item(date, notation, month_name, clock, h, mi, refs):
    txt, exp = render(date, notation, month_name, clock, h, mi)
    seen = []
    for ref in refs:
        try:
            got = norm(O.bestval(txt, ref))
        except Exception as e:
            return txt, ("parse-raises(see C01):" + type(e).__name__, repr(e))
        seen.append(got)
        if got != exp:
            kind = "numeric" if (notation in NUMERIC or notation == "yy") else "month-name"
            what = "no-result" if got is None else ("wrong-date" if got[1:4] != exp[1:4] else "wrong-or-missing-time")
            return txt, ("{}:{}{}".format(kind, what, ":with-clock" if clock else ""),
                         "{!r} at {} -> {} expected {}".format(txt, ref.isoformat(), O.vstr(got), O.vstr(exp)))
    return txt, None


def case_of(date, notation, month_name, clock, h, mi, refs):
    return {"date": date.isoformat(), "notation": notation, "month_name": month_name,
            "clock": list(clock) if clock else None, "h": h, "mi": mi, "refs": [r.isoformat() for r in refs]}


def near_refs(date, h, mi, salt):
    """reference times close to the written date: the same calendar day before and after the written clock
    time, the day before and the day after (an absolute date must not care)"""
    base = dt.datetime(date.year, date.month, date.day)
    k = int.from_bytes(core.jhash(salt), "big")
    opts = [base.replace(hour=23, minute=59, second=59), base.replace(hour=min(23, h + 1), minute=mi), base.replace(hour=0, minute=0),
            base - dt.timedelta(days=1, hours=-15), base + dt.timedelta(days=1, hours=9)]
    return [opts[k % len(opts)], opts[(k // 7) % len(opts)]]


def do(acc, date, notation, month_name, clock, h, mi, refs, origin):
    if int.from_bytes(core.jhash((date, notation, h, mi)), "big") % 3 == 0:
        refs = list(refs) + near_refs(date, h, mi, (date, notation, h))
    if notation == "yy" and not 2000 <= date.year <= 2029:
        return
    if notation not in NUMERIC and notation != "yy" and date.year in MIL_YEARS:
        acc.notes["month-name-notation-skipped-for-military-year"] += 1
        return
    txt, r = check_item(date, notation, month_name, clock, h, mi, refs)
    nt = date.day > 12 or date.day < 10 or date.month < 10 or date.month == 2
    acc.case((txt,), nontrivial=nt, cls=[origin, "numeric" if (notation in NUMERIC or notation == "yy") else "month-name",
                                         "with-clock" if clock else "date-only"],
             sample={"text": txt, "refs": [x.isoformat() for x in refs]})
    acc.n += len(refs) - 1
    if r:
        acc.fail(r[0], case_of(date, notation, month_name, clock, h, mi, refs), r[1])


def ref_times(k, salt):
    base = dt.datetime(1985, 1, 1)
    span = (dt.datetime(2040, 12, 31) - base).days
    out = []
    for i in range(k):
        x = int.from_bytes(core.jhash((salt, i)), "big")
        out.append(base + dt.timedelta(days=x % span, minutes=(x >> 20) % 1440, seconds=(x >> 40) % 60))
    return out


def all_dates():
    d = dt.date(1990, 1, 1)
    while d <= dt.date(2029, 12, 31):
        yield d
        d += dt.timedelta(days=1)


def _sweep_shard(arg):
    pid, dates, seed = arg
    acc = core.Acc(pid)
    for i, date in enumerate(dates):
        refs = ref_times(2, (seed, date.toordinal()))
        for nt in NUMERIC + ["yy"]:
            ck = CLOCKS[(i + len(nt)) % len(CLOCKS)]
            do(acc, date, nt, None, ck, (i * 7) % 24, (i * 13) % 60, refs, "all-dates")
        names = G.MONTH_FORMS[date.month - 1]
        nt = NAMED[i % len(NAMED)]
        do(acc, date, nt, names[i % len(names)], CLOCKS[i % len(CLOCKS)], (i * 5) % 24, (i * 11) % 60, refs, "all-dates")
    return acc


def _quick_shard(arg):
    pid, seed, n, shard = arg
    acc = core.Acc(pid)
    strat = st.tuples(st.dates(dt.date(1990, 1, 1), dt.date(2029, 12, 31)),
                      st.one_of(st.sampled_from(NUMERIC + ["yy"]), st.sampled_from(NAMED)),
                      st.integers(0, 10), st.sampled_from(CLOCKS), st.integers(0, 23), st.integers(0, 59),
                      st.lists(st.datetimes(dt.datetime(1985, 1, 1), dt.datetime(2040, 12, 31)), min_size=2, max_size=3))

    def body(c):
        date, nt, k, ck, h, mi, refs = c
        names = G.MONTH_FORMS[date.month - 1]
        do(acc, date, nt, names[k % len(names)], ck, h, mi, refs, "sampled")

    core.hyp_run(strat, body, n, core.shard_seed(seed, shard))
    return acc


def hard_dates():
    out = [dt.date(y, 2, 29) for y in range(1992, 2029, 4)]
    for y in (2019, 2024, 1999):
        for m in range(1, 13):
            out.append(dt.date(y, m, O.mdays(y, m)))
            out.append(dt.date(y, m, 1))
    return out


HARD_REFS = [dt.datetime(2023, 3, 1, 10, 0), dt.datetime(2024, 2, 29, 23, 59, 59), dt.datetime(1995, 6, 30, 0, 0),
             dt.datetime(2038, 12, 31, 12, 0)]


def _hard_shard(arg):
    pid, dates = arg
    acc = core.Acc(pid)
    for i, date in enumerate(dates):
        names = G.MONTH_FORMS[date.month - 1]
        for j, nt in enumerate(NUMERIC + ["yy"]):
            do(acc, date, nt, None, CLOCKS[(i + j) % len(CLOCKS)], 14, 35, HARD_REFS, "boundary-dates")
        for j, nt in enumerate(NAMED):
            for nm in (names[0], names[(i + j) % len(names)]):
                do(acc, date, nt, nm, CLOCKS[(i + j) % len(CLOCKS)], 14, 35, HARD_REFS, "boundary-dates")
    return acc


def _vocab_shard(arg):
    """every month spelling of the frozen vocabulary x every month-name notation, once (deterministic)"""
    pid, months = arg
    acc = core.Acc(pid)
    for m in months:
        for k, nm in enumerate(G.MONTH_FORMS[m - 1]):
            for j, nt in enumerate(NAMED):
                date = dt.date((2019, 2023, 1998)[(k + j) % 3], m, 13 + (m + j + k) % 15)
                do(acc, date, nt, nm, CLOCKS[(m + j + k) % len(CLOCKS)], 9 + (k + j) % 12, (7 * j + k) % 60, HARD_REFS[(j + k) % 2:][:2], "every-month-spelling")
    return acc


def run(ctx):
    acc = core.pmap_acc(ctx.pid, _hard_shard, [(ctx.pid, p) for p in core.chunks(hard_dates(), 16)])
    acc.merge(core.pmap_acc(ctx.pid, _vocab_shard, [(ctx.pid, [m]) for m in range(1, 13)]))
    subs = []
    if ctx.thorough:
        dates = list(all_dates())
        acc.merge(core.pmap_acc(ctx.pid, _sweep_shard, [(ctx.pid, p, ctx.seed) for p in core.chunks(dates, 64)]))
        subs = ["all 14610 dates 1990-2029 x 7 numeric notations (+1 month-name notation, rotating) x 2 reference times"]
    n = 16000 if ctx.thorough else int(os.environ.get("QAV_N", 4800))
    acc.merge(core.pmap_acc(ctx.pid, _quick_shard, [(ctx.pid, ctx.seed, n // 16, i) for i in range(16)]))
    return core.finish(ctx, acc, RULE, assumptions=[
        "dd.mm.yy denotes 20yy (the all-numeric rule's fixed, reference-time independent convention) and is generated for 2000-2029 only",
        "a resolution with hour but without minute equals hh:00",
        "default options, timeout=0"], extra={"exhaustive_subdomains": subs})


def replay(case):
    date = dt.date.fromisoformat(case["date"])
    clock = tuple(case["clock"]) if case["clock"] else None
    refs = [core.parse_ts(r) for r in case["refs"]]
    _, r = check_item(date, case["notation"], case["month_name"], clock, case["h"], case["mi"], refs)
    return r
