"""Thorough-tier atheris campaign for C01 (coverage-guided fuzzing of the totality oracle)."""
import json
import os
import re
import shutil
import subprocess
import sys
import tempfile

from .. import core, gen


def campaign(ctx, seconds=240, procs=8):
    acc = core.Acc(ctx.pid)
    info = {"available": False}
    try:
        import atheris  # noqa
    except Exception as e:
        info["reason"] = "atheris not importable: {!r} (campaign skipped)".format(e)
        return acc, info
    info["available"] = True
    tmp = tempfile.mkdtemp(prefix="qav-fuzz-")
    try:
        # dictionary = frozen vocabulary
        toks = sorted({t for pool in gen.POOLS for t in pool if t and len(t) <= 24})
        with open(os.path.join(tmp, "dict.txt"), "w", encoding="utf-8") as fd:
            for t in toks:
                b = t.encode("utf-8")
                fd.write('"' + "".join("\\x{:02x}".format(c) for c in b) + '"\n')
        # seed corpus from the bundled corpus (half of the campaigns; the others start empty)
        sys.path.insert(0, core.VERIF)
        seeded = os.path.join(tmp, "corpus-seeded")
        os.makedirs(seeded)
        hdr = lambda i: bytes([i % 4, i % 4, i % 5, i % 4]) + (26000000 + i * 9973).to_bytes(4, "big")  # noqa
        for i, (t, ts, _) in enumerate(gen.corpus_texts()):
            with open(os.path.join(seeded, "s{:04d}".format(i)), "wb") as fd:
                fd.write(hdr(i) + t.encode("utf-8"))
        jobs = []
        for p in range(procs):
            cdir = os.path.join(tmp, "c{}".format(p))
            if p % 2 == 0:
                shutil.copytree(seeded, cdir)
            else:
                os.makedirs(cdir)
            out = os.path.join(tmp, "out{}.jsonl".format(p))
            env = dict(os.environ, QAV_VERIF=core.VERIF, QAV_REPO=core.REPO, QAV_FUZZ_OUT=out, PYTHONHASHSEED="0")
            cmd = [sys.executable, "-W", "ignore", os.path.join(core.VERIF, "qav", "fuzz_c01.py"), cdir,
                   "-dict=" + os.path.join(tmp, "dict.txt"), "-seed={}".format(ctx.seed * 100 + p + 1),
                   "-max_total_time={}".format(seconds), "-max_len=120", "-timeout=120", "-print_final_stats=1",
                   "-artifact_prefix=" + os.path.join(tmp, "art{}-".format(p))]
            jobs.append((p, out, subprocess.Popen(cmd, env=env, stdout=subprocess.PIPE, stderr=subprocess.STDOUT, text=True)))
        total = 0
        per = []
        for p, out, pr in jobs:
            log, _ = pr.communicate()
            m = re.search(r"stat::number_of_executed_units:\s*(\d+)", log or "")
            runs = int(m.group(1)) if m else 0
            cov = re.findall(r"cov: (\d+)", log or "")
            total += runs
            per.append({"proc": p, "corpus": "bundled corpus" if p % 2 == 0 else "empty", "runs": runs,
                        "cov": int(cov[-1]) if cov else None, "exit": pr.returncode})
            if pr.returncode not in (0,) and not os.path.exists(out):
                # a crash of the fuzzer process itself (not a recorded oracle failure): re-decide its artifact
                arts = [f for f in os.listdir(tmp) if f.startswith("art{}-".format(p))]
                for a in arts[:3]:
                    with open(os.path.join(tmp, a), "rb") as fd:
                        data = fd.read()
                    acc.notes["fuzzer-artifact"] += 1
                    _redecide_bytes(acc, data)
            if os.path.exists(out):
                with open(out, encoding="utf-8") as fd:
                    for line in fd:
                        rec = json.loads(line)
                        _redecide(acc, rec["case"])
        acc.n += total
        acc.classes["atheris-executions"] += total
        # distinct non-trivial inputs are not observable from outside the fuzzer; count conservatively: none
        info.update({"campaigns": per, "executions": total, "seconds_per_campaign": seconds})
    finally:
        shutil.rmtree(tmp, ignore_errors=True)
    return acc, info


def _redecide(acc, case):
    """a fuzz-found failure is only reported if the deterministic replay path confirms it"""
    from . import c01
    r = c01.replay(case)
    if r:
        acc.fail("fuzz:" + r[0], case, r[1])
    else:
        acc.notes["fuzz-finding-not-reproduced"] += 1


def _redecide_bytes(acc, data):
    import datetime as dt
    hdr = data[:8].ljust(8, b"\0")
    text = data[8:].decode("utf-8", "replace")[:60]
    case = {"text": text, "ts": "2020-02-29T12:00:00", "opts": {"latent_time": bool(hdr[0] & 1), "max_stack_depth": 10,
                                                                  "relative_match_len": 1.0, "scorer": "default"}, "debug": False}
    _redecide(acc, case)
