"""C16 Scorer = textbook multinomial naive Bayes over 1-3-grams of the rule trace."""
import collections
import datetime as dt
import math
import os
import shutil
import tempfile

from hypothesis import strategies as st

from .. import core, gen
from ..oracle import N

RULE = ("(a) Hypothesis-generated training corpora (2-40 token sequences of length 0-8 over alphabets "
        "of 1-8 tokens, any class balance with both classes present and >=1 non-empty document) and "
        "query documents incl. unseen tokens, repeated tokens, the empty document and long documents (20-1200 tokens, joint log-likelihoods below the exp() underflow range, log-odds in the thousands): "
        "predict_log_proba of the fitted pipeline vs a textbook Laplace-smoothed multinomial NB over "
        "all 1-3-grams written with Counters (tolerance 1e-9, relative for magnitudes above 1), finite, exp sums to 1 (1e-12); save -> "
        "load changes no prediction; NaiveBayesScorer(model).score/score_final on a real partial parse carrying the query as its rule trace equal reference log-odds + length term. (b) bundled corpus expressions under the shipped model through a "
        "recording scorer: every score()/score_final() call equals log-odds recomputed from the "
        "model tables + log(covered/len(text)) (x1000 for final). Non-trivial = distinct (corpus, "
        "query) with a query containing a known n-gram of order >= 2 or an unseen token; distinct "
        "scored partial parses in (b).")

TOL = 1e-9

# ---------------------------------------------------------------------------------
# reference model


def ngrams(doc, lo=1, hi=3):
    out = []
    for n in range(lo, hi + 1):
        for i in range(0, len(doc) - n + 1):
            out.append(" ".join(doc[i:i + n]))
    return out


class RefNB:
    def __init__(self, X, y, alpha=1.0):
        self.vocab = set()
        self.cnt = {1: collections.Counter(), -1: collections.Counter()}
        ndoc = collections.Counter()
        for doc, lab in zip(X, y):
            lab = 1 if lab else -1
            ndoc[lab] += 1
            for g in ngrams(list(doc)):
                self.vocab.add(g)
                self.cnt[lab][g] += 1
        tot = ndoc[1] + ndoc[-1]
        self.prior = {c: math.log(ndoc[c] / tot) for c in (1, -1)}
        V = len(self.vocab)
        self.ll = {}
        for c in (1, -1):
            denom = sum(self.cnt[c].values()) + alpha * V
            self.ll[c] = {g: math.log((self.cnt[c][g] + alpha) / denom) for g in self.vocab}

    def log_proba(self, doc):
        j = {}
        for c in (1, -1):
            s = self.prior[c]
            for g in ngrams(list(doc)):
                if g in self.vocab:
                    s += self.ll[c][g]
            j[c] = s
        mx = max(j.values())
        lse = mx + math.log(sum(math.exp(v - mx) for v in j.values()))
        return (j[-1] - lse, j[1] - lse)


# ---------------------------------------------------------------------------------
# (a) generated corpora

TOKENS = ["100", "128", "108", "136", "ruleHHMM", "ruleDOM1", "ruleLatentDOM", "ruleDateTOD", "a", "b", "x-y", "R_1"]
UNSEEN = ["999", "ruleNope", "zz"]


def corpus_strategy():
    def build(alpha_n, docs, labels, queries):
        alpha = TOKENS[:alpha_n]
        X = [[alpha[i % alpha_n] for i in d] for d in docs]
        y = [labels[i % len(labels)] for i in range(len(X))]
        if len(set(y)) < 2:  # construct rather than reject: flip one label
            y[len(X) // 2] = not y[0]
        Q = [[(alpha + UNSEEN)[i % (alpha_n + len(UNSEEN))] for i in q] for q in queries]
        return X, y, Q

    short_q = st.lists(st.integers(0, 10), min_size=0, max_size=8)
    # long documents: joint log-likelihoods of several hundred nats (where exp() underflows) and log-odds in the
    # hundreds or thousands
    long_q = st.one_of(st.lists(st.integers(0, 10), min_size=20, max_size=160),
                       st.builds(lambda pat, k: (pat * k)[:1200], st.lists(st.integers(0, 7), min_size=1, max_size=4), st.integers(10, 400)))
    return st.builds(build, st.integers(1, 8),
                     st.lists(st.lists(st.integers(0, 7), min_size=0, max_size=8), min_size=2, max_size=40),
                     st.lists(st.booleans(), min_size=1, max_size=9),
                     st.lists(st.one_of(short_q, short_q, short_q, long_q), min_size=1, max_size=6))


def check_corpus(X, y, Q, tmpdir=None):
    """-> list of (bucket, detail, query)"""
    core.load_repo()
    from ctparse import nb_scorer
    fails = []
    if len(set(y)) < 2 or not any(X):
        return None  # outside the textbook model's domain
    try:
        Xc = [list(d) for d in X]
        model = nb_scorer.train_naive_bayes(Xc, list(y))
    except Exception as e:
        return [("fit-raises:" + type(e).__name__, repr(e), None)]
    if Xc != [list(d) for d in X]:
        # the token sequences are the caller's data; a model fed from edited sequences is
        # not the model of "the token sequence" (and the lists would grow on every use)
        return [("fit-edits-its-input-documents", "documents after fit: {}".format(str(Xc)[:300]), None)]
    ref = RefNB(X, y)
    loaded = None
    if tmpdir is not None:
        try:
            f = os.path.join(tmpdir, "m.pbz")
            nb_scorer.save_naive_bayes(model, f)
            sc_loaded = nb_scorer.NaiveBayesScorer.from_model_file(f)
        except Exception as e:
            fails.append(("save-load-raises:" + type(e).__name__, repr(e), None))
            sc_loaded = None
        if sc_loaded is not None:
            loaded = core.scorer_model(sc_loaded)
            if loaded is None:
                raise core.HarnessError("cannot find the model inside a loaded NaiveBayesScorer")
    for q in Q + X[:3]:
        try:
            qc = list(q)
            got = model.predict_log_proba([qc])[0]
            if qc != list(q):
                fails.append(("predict-edits-its-input-document", "{} -> {}".format(q, str(qc)[:200]), q))
                continue
            again = model.predict_log_proba([list(q)])[0]
            if tuple(again) != tuple(got):
                fails.append(("prediction-not-repeatable", "{} then {}".format(got, again), q))
        except Exception as e:
            fails.append(("predict-raises:" + type(e).__name__, repr(e), q))
            continue
        exp = ref.log_proba(q)
        if not all(isinstance(g, float) and math.isfinite(g) for g in got):
            fails.append(("log-proba-not-finite", "{!r}".format(got), q))
            continue
        if abs(got[0] - exp[0]) > TOL * max(1.0, abs(exp[0])) or abs(got[1] - exp[1]) > TOL * max(1.0, abs(exp[1])):
            fails.append(("log-proba-differs-from-textbook", "library {} reference {}".format(got, exp), q))
        if abs(math.exp(got[0]) + math.exp(got[1]) - 1.0) > 1e-12:
            fails.append(("probabilities-do-not-sum-to-one", "{}".format(math.exp(got[0]) + math.exp(got[1])), q))
        if loaded is not None:
            got2 = loaded.predict_log_proba([q])[0]
            if tuple(got2) != tuple(got):
                fails.append(("save-load-changes-prediction", "{} vs {}".format(got, got2), q))
    # score / score_final of a scorer built on THIS model, for a partial parse whose rule trace is the query
    try:
        fails.extend(direct_scores(model, ref, Q))
    except core.HarnessError:
        raise
    except Exception as e:
        fails.append(("direct-score-raises:" + type(e).__name__, repr(e), None))
    # batch prediction = per-document prediction
    try:
        batch = model.predict_log_proba([list(q) for q in Q])
        single = [model.predict_log_proba([list(q)])[0] for q in Q]
        if [tuple(b) for b in batch] != [tuple(s) for s in single]:
            fails.append(("batch-differs-from-single", "{} vs {}".format(batch, single), None))
    except Exception as e:
        fails.append(("batch-predict-raises:" + type(e).__name__, repr(e), None))
    return fails


_pp_cache = {}


def _partial_parse():
    """a real PartialParse (from the matches of a real text) whose rule trace can be replaced"""
    if "pp" not in _pp_cache:
        m = core.load_repo()
        from ctparse.partial_parse import PartialParse
        txt = "tomorrow 8pm xyz"
        seq = gen.one_sequence(txt)
        _pp_cache["pp"] = (txt, PartialParse.from_regex_matches(seq), seq)
    return _pp_cache["pp"]


def direct_scores(model, ref, Q):
    import datetime as _dt
    from ctparse.nb_scorer import NaiveBayesScorer
    from ctparse.partial_parse import PartialParse
    txt, pp0, seq = _partial_parse()
    sc = NaiveBayesScorer(model)
    out = []
    ts = _dt.datetime(2020, 1, 1)
    covered = seq[-1].mend - seq[0].mstart
    for q in Q:
        if not q:
            continue
        pp = PartialParse(prod=tuple(seq), rules=tuple(q))
        lp = ref.log_proba(q)
        lo = lp[1] - lp[0]
        got = sc.score(txt, ts, pp)
        exp = lo + math.log(covered / len(txt))
        if not math.isfinite(got) or abs(got - exp) > 1e-7 * max(1.0, abs(exp)):
            out.append(("score-is-not-logodds-plus-length-term", "trace of {} tokens: library {} reference {}".format(len(q), got, exp), q))
        x = seq[0]
        got = sc.score_final(txt, ts, pp, x)
        exp = lo + 1000.0 * math.log((x.mend - x.mstart) / len(txt))
        if not math.isfinite(got) or abs(got - exp) > 1e-7 * max(1.0, abs(exp)):
            out.append(("score_final-is-not-logodds-plus-1000x-length-term", "trace of {} tokens: library {} reference {}".format(len(q), got, exp), q))
    return out


def _shard_a(arg):
    pid, seed, n, shard = arg
    acc = core.Acc(pid)
    tmp = tempfile.mkdtemp(prefix="qav-c16-")
    try:
        def body(c):
            X, y, Q = c
            fails = check_corpus(X, y, Q, tmp)
            if fails is None:
                acc.notes["corpus-outside-domain(one class or all empty)"] += 1
                return
            vocab = set(g for d in X for g in ngrams(d))
            for q in Q:
                gs = ngrams(q)
                nt = any(g in vocab and " " in g for g in gs) or any(t in UNSEEN for t in q)
                acc.case((X, y, q), nontrivial=nt,
                         cls=["generated-corpus", "query-empty" if not q else "query-nonempty",
                              "query-has-unseen" if any(t in UNSEEN for t in q) else "query-all-seen",
                              "pos-share<=20%" if sum(y) <= 0.2 * len(y) else "pos-share>=80%" if sum(y) >= 0.8 * len(y) else "balanced"],
                         sample={"X": X[:4], "y": y[:4], "n_docs": len(X), "query": q})
            for b, d, q in fails:
                acc.fail(b, {"X": X, "y": y, "Q": [q] if q is not None else Q}, d)

        core.hyp_run(corpus_strategy(), body, n, core.shard_seed(seed, shard))
    finally:
        shutil.rmtree(tmp, ignore_errors=True)
    return acc


# ---------------------------------------------------------------------------------
# (b) composition under the shipped model


def _spy_class():
    core.load_repo()
    from ctparse.scorer import Scorer

    class Spy(Scorer):
        def __init__(self, inner):
            self.inner = inner
            self.calls = []

        def score(self, txt, ts, pp):
            s = self.inner.score(txt, ts, pp)
            self.calls.append(("score", txt, tuple(pp.rules), pp.prod[-1].mend - pp.prod[0].mstart, s))
            return s

        def score_final(self, txt, ts, pp, prod):
            s = self.inner.score_final(txt, ts, pp, prod)
            self.calls.append(("final", txt, tuple(pp.rules), prod.mend - prod.mstart, s))
            return s

    return Spy


def table_logodds(model, rules):
    """log-odds recomputed from the tables of a fitted pipeline (prior + likelihood of known 1-3-grams), independent of
    the library's prediction code; when the tables are kept in a representation the harness does not know, the
    model's own public prediction (which part (a) decides against the textbook reference) is used instead"""
    tabs = core.model_tables(model)
    if tabs is None:
        lp = model.predict_log_proba([[str(r) for r in rules]])[0]
        return lp[1] - lp[0]
    vocab, (neg, pos), lneg, lpos = tabs
    for g in ngrams([str(r) for r in rules]):
        i = vocab.get(g)
        if i is not None:
            neg += lneg[i]
            pos += lpos[i]
    return pos - neg


def check_composition(text, ts, depth):
    m = core.load_repo()
    from ctparse.nb_scorer import NaiveBayesScorer
    default = core.default_scorer()
    if not isinstance(default, NaiveBayesScorer):
        raise core.HarnessError("shipped model not loaded (default scorer is {})".format(type(default).__name__))
    spy = _spy_class()(default)
    cands = [c for c in m.ctparse_gen(text, ts, timeout=0, max_stack_depth=depth, scorer=spy, latent_time=False) if c]
    fails = []
    seen = []
    cleaned = N(text)
    for kind, txt, rules, covered, s in spy.calls:
        if txt != cleaned:
            raise core.HarnessError("cleaned text differs from reference normaliser: {!r} vs {!r}".format(txt, cleaned))
        lo = table_logodds(core.scorer_model(default), rules)
        exp = lo + (1000.0 if kind == "final" else 1.0) * math.log(covered / len(cleaned))
        seen.append((kind, rules, covered))
        if not math.isfinite(s) or abs(s - exp) > 1e-6 * max(1.0, abs(exp)):
            fails.append(("{}-score-composition".format(kind),
                          "rules {} covered {}/{}: library {} recomputed {}".format(rules, covered, len(cleaned), s, exp)))
    # the scores the caller sees are the final scores
    finals = {(r, c): s for k, t, r, c, s in spy.calls if k == "final"}
    for c in cands:
        key = (tuple(c.production), c.resolution.mend - c.resolution.mstart)
        if key not in finals or finals[key] != c.score:
            fails.append(("candidate-score-is-not-its-final-score", "{!r} score {} finals {}".format(c.resolution, c.score, finals.get(key))))
    return fails, seen


def _shard_b(arg):
    pid, part = arg
    acc = core.Acc(pid)
    for text, ts, depth in part:
        o, cls = gen.bounded_options(text, {"max_stack_depth": depth}, max_seq=300)
        if o is None:
            acc.notes[cls] += 1
            continue
        fails, seen = check_composition(text, ts, o["max_stack_depth"])
        case = {"text": text, "ts": ts.isoformat(), "depth": o["max_stack_depth"]}
        for kind, rules, covered in seen:
            acc.case((text, kind, rules, covered), nontrivial=True, cls=["shipped-model", kind, cls],
                     sample=dict(case, kind=kind, rules=rules, covered=covered))
        for b, d in fails:
            acc.fail(b, case, d)
    return acc


def run(ctx):
    n = 40000 if ctx.thorough else 3200
    shards = 16
    acc = core.pmap_acc(ctx.pid, _shard_a, [(ctx.pid, ctx.seed, n // shards, i) for i in range(shards)])
    texts = gen.corpus_texts()
    step = 1 if ctx.thorough else 4
    off = ctx.seed % step
    jobs = [(t, ts, 10 if i % 3 else 0) for i, (t, ts, _) in enumerate(texts) if i % step == off]
    acc.merge(core.pmap_acc(ctx.pid, _shard_b, [(ctx.pid, p) for p in core.chunks(jobs, 16)]))
    return core.finish(ctx, acc, RULE, assumptions=[
        "tokens contain no blank (n-grams are blank-joined); training sets with one class only or without any token are outside the textbook model",
        "tolerance 1e-9 x max(1, |value|) on log-probabilities (summation order differs), 1e-12 on the probability sum, 1e-7 relative on composed scores"],
        shrinker=_shrink)


def _cands(case):
    if "X" not in case:
        return
    X, y, Q = case["X"], case["y"], case["Q"]
    for i in range(len(X)):
        if len(X) > 2:
            yield dict(case, X=X[:i] + X[i + 1:], y=y[:i] + y[i + 1:])
    for i, d in enumerate(X):
        for j in range(len(d)):
            yield dict(case, X=X[:i] + [d[:j] + d[j + 1:]] + X[i + 1:])
    if len(Q) > 1:
        for i in range(len(Q)):
            yield dict(case, Q=Q[:i] + Q[i + 1:])
    for i, q in enumerate(Q):
        for j in range(len(q)):
            yield dict(case, Q=Q[:i] + [q[:j] + q[j + 1:]] + Q[i + 1:])


def _shrink(case, bucket):
    f = lambda c: (replay(c, bucket) or [None])[0]  # noqa
    c = core.greedy_shrink(case, f, _cands, budget=300)
    r = replay(c, bucket)
    return c, (r[1] if r else None)


def replay(case, bucket=None):
    if "X" in case:
        tmp = tempfile.mkdtemp(prefix="qav-c16-")
        try:
            fails = check_corpus(case["X"], case["y"], case["Q"], tmp) or []
        finally:
            shutil.rmtree(tmp, ignore_errors=True)
        fails = [(b, d) for b, d, _ in fails]
    else:
        fails, _ = check_composition(case["text"], core.parse_ts(case["ts"]), case["depth"])
    if bucket is not None:
        bucket = bucket.replace("regress:", "")
        fails = [f for f in fails if f[0] == bucket]
    return fails[0] if fails else None
