"""Entry point: python -m qav.run <ID> [--tier quick|thorough] [--replay FILE]"""
import argparse
import importlib
import json
import os
import sys
import traceback

from . import core


def main(argv=None):
    ap = argparse.ArgumentParser()
    ap.add_argument("pid")
    ap.add_argument("--tier", default=os.environ.get("VERIF_TIER") or "quick",
                    choices=["quick", "thorough"])
    ap.add_argument("--replay", default=None)
    ap.add_argument("--seed", default=None)
    a = ap.parse_args(argv)
    seed = a.seed if a.seed is not None else os.environ.get("VERIF_SEED", "1")
    try:
        seed = int(seed)
    except ValueError:
        seed = int.from_bytes(seed.encode(), "big") % (2 ** 31)
    pid = a.pid.upper()
    try:
        core.load_repo()
        mod = importlib.import_module("qav.props." + pid.lower())
        ctx = core.Ctx(pid, a.tier, seed, a.replay)
        if a.replay:
            with open(a.replay, encoding="utf-8") as fd:
                data = json.load(fd)
            if data.get("property") != pid:
                raise core.HarnessError("replay file is for {}".format(data.get("property")))
            res = mod.replay(data["case"])
            if res:
                print("VIOLATION property={} replay={}".format(pid, os.path.abspath(a.replay)))
                print("  bucket: {}".format(str(res[0]).encode("utf-8", "backslashreplace").decode("utf-8")))
                print("  detail: {}".format(str(res[1])[:1000].encode("utf-8", "backslashreplace").decode("utf-8")))
                return 1
            print("{} replay {}: property holds on this case".format(pid, a.replay))
            return 0
        ctx.regress = core.run_regress(pid, mod)
        return mod.run(ctx)
    except core.HarnessError as e:
        print("HARNESS-ERROR {}: {}".format(pid, e), file=sys.stderr)
        return 2
    except BaseException:
        print("HARNESS-ERROR {}: unexpected exception in the harness".format(pid), file=sys.stderr)
        traceback.print_exc()
        return 2


if __name__ == "__main__":
    sys.exit(main())
