"""Generators shared by the text-level properties: frozen token vocabulary (written by
reading the patterns at the pinned commit, NOT derived from the regexes at run time),
token soup, mutated corpus expressions, reference times, option tuples, work bounds."""
import datetime as dt
import random

from hypothesis import strategies as st

from . import core

WEEKDAYS = ["montag", "monday", "mon", "mo", "dienstag", "tuesday", "tue", "di", "mittwoch",
            "wednesday", "wed", "mi", "donnerstag", "thursday", "thu", "do", "freitag", "friday",
            "fri", "fr", "samstag", "sonnabend", "saturday", "sat", "sa", "sonntag", "sunday",
            "sun", "so", "Mondays", "freitags"]
MONTHS = ["january", "jan", "february", "feb", "märz", "march", "mar", "april", "apr", "mai", "may",
          "juni", "june", "jun", "juli", "july", "jul", "august", "aug", "september", "sept", "sep",
          "oktober", "october", "oct", "okt", "november", "nov", "december", "dezember", "dez", "dec",
          "Feb."]
NAMED_HOURS = ["one", "two", "three", "four", "five", "six", "seven", "eight", "nine", "ten", "eleven",
               "twelve", "eins", "zwei", "drei", "vier", "fünf", "sechs", "sieben", "acht", "neun",
               "zehn", "elf", "zwölf", "midnight", "mitternacht", "neun uhr", "nine o'clock"]
REL = ["heute", "today", "tomorrow", "morgen", "tmrw", "übermorgen", "gestern", "yesterday",
       "vorgestern", "vor gestern", "now", "jetzt", "right now", "EOM", "EOY", "end of month",
       "end of the year", "ende des monats", "jahresende", "at this time", "immediately"]
PODS = ["morning", "morgens", "früh", "early", "forenoon", "vormittag", "afternoon", "nachmittags",
        "noon", "mittag", "evening", "tonight", "late", "abend", "abends", "spät", "night", "nachts",
        "first", "last", "earliest", "latest", "very early", "sehr früh", "very late", "sehr spät",
        "as early as possible", "so spät wie möglich", "first possible", "in der früh"]
MODS = ["very", "sehr", "early", "late", "früh", "spät", "früher", "später", "very early", "very late",
        "sehr früh", "sehr spät", "frühen", "late late", "early late"]
CONN = ["at", "on", "am", "um", "gegen", "den", "dem", "der", "the", "ca.", "approx", "about", "in",
        "in the", "of", "of the", "around", "von", "vom", "zwischen", "from", "between", "this",
        "diesen", "diesem", "next", "following", "nächsten", "kommenden", "next week", "nächste Woche",
        "kommende Woche", "on the next", "am kommenden"]
JOIN = ["-", "/", "to", "to the", "until", "til", "till", "bis", "bis zum", "zum", "auf", "auf den",
        "und", "no later than", "spätestens", "at latest", "and", "--", " - "]
BEFAFT = ["vor", "before", "not before", "nicht vor", "bis spätestens", "latest", "nach", "after",
          "not after", "nicht nach", "ab", "frühestens", "ab frühestens", "earliest", "from earliest",
          "earliest after"]
DIGITS = ["0", "1", "2", "3", "5", "8", "9", "10", "12", "13", "17", "20", "23", "24", "25", "29", "30",
          "31", "32", "60", "00", "05", "08", "2400", "1530", "0800", "2359", "1200", "2019", "2020",
          "2021", "1999", "2029", "2030", "99", "19", "120"]
ORD = ["1st", "2nd", "3rd", "4th", "21st", "22nd", "30th", "31st", "5.", "29.", "30.", "31.", "1.",
       "ersten", "3ten", "5 th", "31ter", "the 5th"]
CLOCK = ["8:00", "20:15", "8h", "8uhr", "8 uhr", "8am", "8pm", "8 am", "8 pm", "8p.m.", "8 a.m.",
         "12am", "12pm", "12 am", "12:30am", "12:30pm", "0:00", "00:00", "23:59", "24:00", "8h30",
         "8uhr30", "8.30", "8 o'clock", "8 oclock", "15 uhr", "0 uhr", "7:5", "19:30h", "19:30 uhr",
         "1530h", "0800 uhr", "08:00pm", "13:30am", "0am", "0pm", "12h", "12:00", "9-5", "22-2",
         "5-5", "9 to 5", "8:00 - 9:30", "10-12h", "8-10 uhr"]
DATES = ["5.10.", "31.04.", "30.2.", "29.02.2019", "29.02.2020", "12/12/2020", "12-12-2020",
         "1.1.99", "12.02.2020", "5/10", "31.12.", "31.12.2020", "1.1.", "31.04.2020", "30.02.2021",
         "31/6", "31.6.2020", "31.11.", "10/31", "02/30", "06-31", "2-29", "feb-30", "29.feb",
         "31.apr.2020", "1.jan.2020", "31.9.", "24.12.19", "5.5", "5.13", "12.02.2020 - 31.", "29.02.1900", "29 feb 1900", "29.02.2000",
         "28.02.1900 - 29.02.1900", "29.02.00", "1.3.1900", "29.2.2100",
         "31. - 12.02.2020", "30.2. - 5.3.2020", "15.-31.6.2020", "29.2.", "31.6 - 2.7.2021"]
QUARTER = ["quarter to", "quarter past", "a quarter to", "quarter after", "viertel vor", "viertel nach",
           "half", "halb", "half past", "halb nach", "half to", "halfe", "halb vor", "quarter of"]
DUR = ["2 days", "1 night", "3 weeks", "1 month", "30 minutes", "2 h", "two days", "eine nacht",
       "half an hour", "1/2 day", "halbe stunde", "for", "für", "for 2 days", "für eine nacht",
       "0 days", "120 months", "40 monate", "99999 days", "1000000 months", "3000 weeks",
       "a day", "an hour", "ein tag", "3 nächte", "14 tage", "31 days", "thirty days", "a m",
       "500000 hours", "zwei wochen", "1 übernachtung", "half a day", "for 9999 months"]
LABELS = ["#", "#tag", "#1", "#a-b", "#_x", "##", "#tag2", "# x", "#-", "#1a", "#tag#tag", "#übung", "#école", "#ärzte", "#ñ1", "#.x",
          "#a--b", "#tag,", "#Ünï-1"]
INERT = ["xyzzy", "qwfp", "blrg", "zzz", "kkvk", "Meeting", "call", "mit", "lunch", "x", "foo-bar",
         "(", ")", "[x]", ",", ";", ".", "..", ":", "'", "\"", "\\", "%", "é", "ß", "İ", "ǅ"]

POOLS = [WEEKDAYS, MONTHS, NAMED_HOURS, REL, PODS, MODS, CONN, JOIN, BEFAFT, DIGITS, ORD, CLOCK, DATES,
         QUARTER, DUR, LABELS, INERT]
# pools that assemble dates / modifiers (C02 bias)
DATE_POOLS = [WEEKDAYS, MONTHS, DIGITS, ORD, DATES, JOIN, PODS, MODS, CONN, CLOCK, DUR]

SEPS = [" ", " ", " ", "  ", ", ", " ,", "\t", "\n", " ", "; ", " (", ") ", "", "", "-", " - ", "–", "​",
        ".", ". "]

SPECIAL_TS = [
    dt.datetime(2020, 2, 29, 12, 0), dt.datetime(2019, 2, 28, 23, 59, 59, 999999),
    dt.datetime(2020, 12, 31, 23, 59, 59), dt.datetime(2021, 1, 1, 0, 0), dt.datetime(2018, 1, 31, 8, 30),
    dt.datetime(2018, 3, 31, 0, 0), dt.datetime(2019, 10, 31, 12, 43), dt.datetime(2024, 2, 29, 0, 0, 1),
    dt.datetime(1970, 1, 1, 0, 0), dt.datetime(2100, 12, 31, 23, 59, 59), dt.datetime(2100, 2, 28, 12, 0),
    dt.datetime(2000, 2, 29, 6, 0), dt.datetime(1999, 12, 31, 23, 59), dt.datetime(2020, 10, 25, 2, 30),
    dt.datetime(2023, 4, 30, 17, 0, 0, 1), dt.datetime(2015, 3, 1, 0, 0),
]


def ts_strategy():
    return st.one_of(
        st.sampled_from(SPECIAL_TS),
        st.datetimes(min_value=dt.datetime(1970, 1, 1), max_value=dt.datetime(2100, 12, 31, 23, 59, 59)),
        st.builds(lambda d, t: dt.datetime.combine(d, t),
                  st.dates(dt.date(2016, 1, 1), dt.date(2043, 12, 31)),
                  st.sampled_from([dt.time(0, 0), dt.time(12, 43), dt.time(23, 59, 59, 999999), dt.time(8, 0)])),
    )


def soup_strategy(pools=POOLS, max_tokens=6):
    tok = st.one_of(*[st.sampled_from(p) for p in pools])
    sep = st.sampled_from(SEPS)

    def join(parts):
        toks, seps, lead, trail = parts
        out = [lead]
        for i, t in enumerate(toks):
            if i:
                out.append(seps[i % len(seps)])
            out.append(t)
        out.append(trail)
        return "".join(out)

    return st.builds(join, st.tuples(st.lists(tok, min_size=0, max_size=max_tokens),
                                     st.lists(sep, min_size=1, max_size=6),
                                     st.sampled_from(["", "", " ", ", ", "("]),
                                     st.sampled_from(["", "", " ", ".", ")", " #tag"])))


# ---------------------------------------------------------------------------------
# structured families: the shapes the rules compose (ranges, day x clock, part of day x
# clock, date ranges, durations) with the numeric slots drawn over their FULL ranges, so that
# a defect confined to one hour pair / one day / one joiner is reachable

DAYS = ["", "", "tomorrow", "morgen", "friday", "montag", "5.10.2020", "11.03.2021", "31.12.2020",
        "29.02.2020", "May 5th", "am 5.", "next friday", "heute", "31.1.", "on monday"]
FAM_PODS = ["morning", "evening", "afternoon", "night", "nachmittags", "abends", "tonight", "noon", "vormittags",
            "early morning", "late evening", "very late night", "first", "last", "früh"]
FAM_JOIN = ["-", " - ", " to ", " bis ", " until ", " and ", " und ", "–", " til ", "/"]
FAM_RANGE_PRE = ["", "", "from ", "von ", "between ", "zwischen "]
FAM_CLOCK_SUF = ["", "", "", " uhr", "h", "pm", "am", " pm", " am", " o'clock", ":00", " Uhr"]
FAM_UNITS = ["days", "day", "nights", "night", "weeks", "months", "month", "hours", "h", "minutes", "m", "tage",
             "nächte", "wochen", "monate", "stunden", "minuten", "übernachtung"]


def _clock(h, mi, style, suf):
    if mi is None:
        return "{}{}".format(h, suf)
    if style == 0:
        return "{}:{:02d}{}".format(h, mi, suf if suf not in (":00",) else "")
    if style == 1:
        return "{:02d}{:02d}{}".format(h, mi, suf if suf not in (":00", " o'clock") else "")
    if style == 2:
        return "{}h{:02d}".format(h, mi)
    return "{}.{:02d}{}".format(h, mi, suf if suf in ("pm", "am", " pm", " am") else "")


def family_strategy():
    hour = st.one_of(st.integers(0, 23), st.sampled_from([0, 11, 12, 12, 13, 23, 24]))
    minute = st.one_of(st.none(), st.none(), st.sampled_from([0, 15, 30, 45, 59, 5]))
    style = st.integers(0, 3)
    suf = st.sampled_from(FAM_CLOCK_SUF)
    clock = st.builds(_clock, hour, minute, style, suf)
    day = st.sampled_from(DAYS)
    pod = st.sampled_from(FAM_PODS)
    join = st.sampled_from(FAM_JOIN)
    pre = st.sampled_from(FAM_RANGE_PRE)
    dom = st.integers(1, 31)
    mon = st.integers(1, 12)
    year = st.sampled_from([2019, 2020, 2021, 2024, 19, 20, 99, 1900, 2000, 1996])
    date = st.one_of(
        st.builds(lambda d, m, y: "{}.{}.{}".format(d, m, y), dom, mon, year),
        st.builds(lambda d, m: "{}.{}.".format(d, m), dom, mon),
        st.builds(lambda d: "{}.".format(d), dom),
        st.builds(lambda d, m, y: "{}/{}/{}".format(d, m, y), dom, mon, year),
        st.builds(lambda d, m, y: "{} {} {}".format(m, d, y), dom, st.sampled_from(MONTHS), year),
        st.builds(lambda d, m: "{}th of {}".format(d, m), dom, st.sampled_from(MONTHS)),
        day)
    num = st.one_of(st.integers(0, 120), st.sampled_from([1, 2, 3, 28, 29, 30, 31, 1000, 100000]))
    dur = st.builds(lambda n, u: "{} {}".format(n, u), num, st.sampled_from(FAM_UNITS))
    sp = " "
    fams = [
        st.builds(lambda d, p, a, j, b: (d + sp + p + a + j + b).strip(), day, pre, clock, join, clock),
        st.builds(lambda po, a, j, b: po + sp + a + j + b, pod, clock, join, clock),
        st.builds(lambda d, po, a, j, b: (d + sp + po + sp + a + j + b).strip(), day, pod, clock, join, clock),
        st.builds(lambda a, j, b, po: a + j + b + sp + po, clock, join, clock, pod),
        st.builds(lambda d, c: (d + sp + c).strip(), date, clock),
        st.builds(lambda c, d: (c + sp + d).strip(), clock, date),
        st.builds(lambda c, po: c + sp + po, clock, pod),
        st.builds(lambda po, c: po + sp + c, pod, clock),
        st.builds(lambda a, j, b: a + j + b, date, join, date),
        st.builds(lambda a, j, b, c: a + j + b + sp + c, date, join, date, clock),
        st.builds(lambda d, du: d + " for " + du, date, dur),
        st.builds(lambda du, a, j, b: du + sp + a + j + b, dur, date, join, date),
        st.builds(lambda a, j, b, du: a + j + b + " für " + du, date, join, date, dur),
        st.builds(lambda q, c: q + sp + c, st.sampled_from(QUARTER), clock),
        st.builds(lambda w, c: w + sp + c, st.sampled_from(BEFAFT), st.one_of(clock, date)),
        st.builds(lambda m1, m2, po: m1 + sp + m2 + sp + po, st.sampled_from(MODS), st.sampled_from(MODS), pod),
        st.builds(lambda wd, d: wd + sp + d, st.sampled_from(WEEKDAYS), st.one_of(date, st.builds(lambda d: "{}th".format(d), dom))),
        # the same token twice (shared or cached values show when one word occurs at two offsets)
        st.builds(lambda a, j, d1, d2: (d1 + sp + a + j + d2 + sp + a).strip(),
                  st.one_of(st.sampled_from(NAMED_HOURS), st.sampled_from(PODS), st.sampled_from(REL), clock, st.sampled_from(WEEKDAYS)),
                  join, day, day),
        st.builds(lambda a, b: a + sp + b + sp + a, st.one_of(st.sampled_from(NAMED_HOURS), st.sampled_from(PODS), st.sampled_from(REL)), date),
        # every order of date / weekday / part of day / clock (gluing rules carry fields over)
        st.builds(lambda parts: sp.join(parts),
                  st.permutations(["{date}", "{wd}", "{pod}", "{clock}"]).flatmap(
                      lambda perm: st.tuples(*[{"{date}": date, "{wd}": st.sampled_from(WEEKDAYS), "{pod}": pod,
                                                "{clock}": clock}[x] for x in perm[:3]]))),
        st.builds(lambda parts: sp.join(parts),
                  st.permutations(["{date}", "{wd}", "{pod}"]).flatmap(
                      lambda perm: st.tuples(*[{"{date}": date, "{wd}": st.sampled_from(WEEKDAYS), "{pod}": pod}[x] for x in perm]))),
    ]
    return st.one_of(*fams)


_corpus_cache = None


def corpus_texts():
    """(text, ts) pairs of the bundled corpus (ctparse/time/corpus.py) and dataset"""
    global _corpus_cache
    if _corpus_cache is not None:
        return _corpus_cache
    core.load_repo()
    import json
    import os
    from ctparse.time.corpus import corpus
    out = []
    for target, ts, tests in corpus:
        t = dt.datetime.strptime(ts, "%Y-%m-%dT%H:%M")
        for x in tests:
            out.append((x, t, target))
    _corpus_cache = out
    return out


def mutate_strategy():
    """corpus expressions under character deletion / duplication / transposition / case
    change / insertion of a vocabulary token"""
    texts = [t for t, _, _ in corpus_texts()]

    def mut(args):
        s, ops = args
        for op, pos, extra in ops:
            if not s:
                break
            i = pos % len(s)
            if op == 0:
                s = s[:i] + s[i + 1:]
            elif op == 1:
                s = s[:i] + s[i] + s[i:]
            elif op == 2 and i + 1 < len(s):
                s = s[:i] + s[i + 1] + s[i] + s[i + 2:]
            elif op == 3:
                s = s[:i] + s[i].swapcase() + s[i + 1:]
            elif op == 4:
                s = s[:i] + " " + extra + " " + s[i:]
            elif op == 5:
                s = s.upper()
        return s

    tok = st.one_of(*[st.sampled_from(p) for p in POOLS])
    return st.builds(mut, st.tuples(st.sampled_from(texts),
                                    st.lists(st.tuples(st.integers(0, 5), st.integers(0, 200), tok),
                                             min_size=1, max_size=3)))


def text_strategy(max_free=40):
    free = st.text(max_size=max_free)
    free2 = st.text(alphabet=st.sampled_from(list("0123456789.:/-# abcdefhimnoprstuyAP,;äöüß\t\n​()")),
                    max_size=24)
    return st.one_of(soup_strategy(), soup_strategy(), soup_strategy(DATE_POOLS, 5), free, free2,
                     mutate_strategy(), family_strategy())


def scorer_from_spec(spec):
    """spec: 'default' | 'dummy' | ['random', k]"""
    core.load_repo()
    from ctparse.scorer import DummyScorer, RandomScorer
    if spec == "default":
        return None
    if spec == "dummy":
        return DummyScorer()
    return RandomScorer(random.Random(int(spec[1])))


def options_strategy():
    return st.fixed_dictionaries({
        "latent_time": st.booleans(),
        "max_stack_depth": st.sampled_from([0, 1, 10, 10]),
        "relative_match_len": st.one_of(st.sampled_from([1.0, 1.0, 0.9, 0.5, 0.01]),
                                        st.floats(min_value=0.001, max_value=1.0, allow_nan=False)),
        "scorer": st.one_of(st.just("default"), st.just("default"), st.just("dummy"),
                            st.tuples(st.just("random"), st.integers(0, 10 ** 6))),
    })


# ---------------------------------------------------------------------------------
# work bound


_stats_cache = {}


def seq_stats3(text):
    """(number of pattern matches, number of maximal gap-free match sequences, length of the
    longest such sequence) for the cleaned text; matches come from the library's matcher,
    counts from an own DP over the 'adjacent' relation.  Used only as a work bound."""
    if text in _stats_cache:
        return _stats_cache[text]
    m = core.load_repo()
    import re as _re

    t = m._preprocess_string(text)
    t = _re.sub(" +", " ", _re.sub("#[a-zA-Z0-9_-]+", "", t)).strip()
    ms = m._match_regex(t, m.global_regex)
    n = len(ms)
    if n == 0:
        res = (0, 0, 0)
    elif n > 400:
        res = (n, 10 ** 9, n)
    else:
        def adj(a, b):
            gap = t[a.mend:b.mstart]
            return b.mstart >= a.mend and (gap == "" or gap.isspace())

        succ = [[j for j in range(i + 1, n) if adj(ms[i], ms[j])] for i in range(n)]
        haspred = [False] * n
        for i in range(n):
            for j in succ[i]:
                haspred[j] = True
        cnt = [0] * n
        ln = [0] * n
        for i in reversed(range(n)):
            cnt[i] = 1 if not succ[i] else sum(cnt[j] for j in succ[i])
            ln[i] = 1 + (max(ln[j] for j in succ[i]) if succ[i] else 0)
        res = (n, sum(cnt[i] for i in range(n) if not haspred[i]), max(ln))
    if len(_stats_cache) > 5000:
        _stats_cache.clear()
    _stats_cache[text] = res
    return res


def seq_stats(text):
    return seq_stats3(text)[:2]


def one_sequence(t):
    """one maximal gap-free sequence of pattern matches of the (already cleaned) text t, built harness-side from the
    library's matches (does not need the library's own sequence enumeration)"""
    m = core.load_repo()
    ms = m._match_regex(t, m.global_regex)
    if not ms:
        return ()

    def adj(a, b):
        gap = t[a.mend:b.mstart]
        return b.mstart >= a.mend and (gap == "" or gap.isspace())

    seq = [ms[0]]
    while True:
        nxt = [x for x in ms if adj(seq[-1], x)]
        if not nxt:
            return tuple(seq)
        seq.append(min(nxt, key=lambda x: (x.mstart, -x.mend)))


def bounded_options(text, opts, max_seq=600, max_seq_depth0=40, max_len_depth0=6):
    """Apply DESIGN 3.8: returns (opts', cls) or (None, 'skipped-too-large').  Unlimited depth
    is exponential in the length of the candidate sequences, so depth 0 is only used when the
    longest sequence has <= max_len_depth0 matches and there are <= max_seq_depth0 sequences."""
    n, nseq, maxlen = seq_stats3(text)
    if nseq > max_seq:
        return None, "skipped-too-many-sequences"
    o = dict(opts)
    cls = "depth{}".format(o.get("max_stack_depth", 10))
    if o.get("max_stack_depth", 10) == 0 and (nseq > max_seq_depth0 or maxlen > max_len_depth0):
        o["max_stack_depth"] = 10
        cls = "depth0->10(work bound)"
    return o, cls
