"""Shared machinery: repo loading, accumulators, sharded execution, known findings,
bucketing, shrinking, replay files, evidence files.  See DESIGN.md section 3."""
import collections
import hashlib
import json
import multiprocessing as mp
import os
import sys
import time
import traceback

VERIF = os.path.dirname(os.path.dirname(os.path.abspath(__file__)))
REPO = os.path.realpath(os.environ.get("QAV_REPO", "/repo"))
NPROC = int(os.environ.get("QAV_NPROC", "16"))


class HarnessError(Exception):
    """Something is wrong with the harness or its environment (exit 2, never a VIOLATION)."""


_loaded = None


def load_repo():
    """Import ctparse from the selected tree and return the *module* ctparse.ctparse."""
    global _loaded
    if _loaded is not None:
        return _loaded
    if REPO not in sys.path:
        sys.path.insert(0, REPO)
    import logging

    logging.disable(logging.CRITICAL)
    try:
        import ctparse  # noqa
    except Exception as e:  # the tree does not even import: that is not our verdict to give
        raise HarnessError("cannot import ctparse from {}: {!r}".format(REPO, e))
    f = os.path.realpath(ctparse.__file__)
    if not f.startswith(REPO + os.sep + "ctparse" + os.sep):
        raise HarnessError("ctparse imported from {} not from {}".format(f, REPO))
    _loaded = sys.modules["ctparse.ctparse"]
    if os.environ.get("QAV_TEXT_LOG"):
        _install_text_log(_loaded, os.environ["QAV_TEXT_LOG"])
    if os.environ.get("QAV_PATTERN_MUTANT"):
        # tools/pattern_mutation.py (sensitivity self-test, never set by a registered command): swap one compiled
        # pattern of the imported library for a mutated one
        import json as _json
        import regex as _regex
        from ctparse import rule as _R
        spec = _json.load(open(os.environ["QAV_PATTERN_MUTANT"], encoding="utf-8"))
        _R._regex[int(spec["rid"])] = _regex.compile(spec["pattern"], _regex.VERSION1)
    return _loaded


def default_scorer():
    """the scorer the library uses when the caller passes none - wherever the library keeps it (module attribute set
    at import, or created lazily at first use, or only obtainable from the public loader)"""
    m = load_repo()
    sc = getattr(m, "_DEFAULT_SCORER", None)
    if sc is not None:
        return sc
    for mod in (m, sys.modules.get("ctparse.loader")):
        f = getattr(mod, "get_default_scorer", None)
        if callable(f):
            sc = f()
            if sc is not None:
                return sc
    import datetime as _dt
    m.ctparse("tomorrow", ts=_dt.datetime(2020, 1, 1), timeout=0)   # a lazy default is created by the first parse
    sc = getattr(m, "_DEFAULT_SCORER", None)
    if sc is not None:
        return sc
    from ctparse.loader import load_default_scorer
    return load_default_scorer()


def scorer_model(sc):
    """the model object inside a naive-Bayes scorer (attribute name differs between versions)"""
    for name in ("_model", "model"):
        mdl = getattr(sc, name, None)
        if mdl is not None and not callable(mdl):
            return mdl
    return None


def model_tables(mdl):
    """(vocabulary dict, (prior_neg, prior_pos), neg list, pos list) of a fitted pipeline, or None when the tables are
    not kept in a representation this harness knows (then callers fall back to the model's public prediction)"""
    try:
        vocab = dict(mdl.transformer.vocabulary)
        est = mdl.estimator
        prior = tuple(est.class_prior)
        ll = getattr(est, "log_likelihood", None)
        if ll is not None:
            return vocab, prior, list(ll["negative_class"]), list(ll["positive_class"])
        flp = getattr(est, "feature_log_prob", None)
        if flp is not None:
            flp = list(flp)
            if len(flp) == 2 and len(flp[0]) == len(vocab):
                return vocab, prior, list(flp[0]), list(flp[1])
            if flp and len(flp) == len(vocab) and len(flp[0]) == 2:
                return vocab, prior, [r[0] for r in flp], [r[1] for r in flp]
    except Exception:
        return None
    return None


def _install_text_log(m, directory):
    """tools/vocab_audit.py: record every distinct text handed to the pattern matcher (one json string per line,
    one file per process).  Only active when QAV_TEXT_LOG names a directory; observation only."""
    import json as _json

    os.makedirs(directory, exist_ok=True)
    orig = m._match_regex
    seen = set()
    tag = os.environ.get("QAV_TEXT_LOG_TAG", "x")

    def logged(txt, *a, **kw):
        if txt not in seen:
            seen.add(txt)
            with open(os.path.join(directory, "{}-{}.txt".format(tag, os.getpid())), "a", encoding="utf-8") as fd:
                fd.write(_json.dumps(txt) + "\n")
        return orig(txt, *a, **kw)

    m._match_regex = logged


def json_text(obj, **kw):
    """json with readable non-ASCII text; falls back to \\u escapes when the data holds code points UTF-8 cannot
    carry (lone surrogates are legitimate test inputs)"""
    txt = json.dumps(obj, ensure_ascii=False, **kw)
    try:
        txt.encode("utf-8")
    except UnicodeEncodeError:
        txt = json.dumps(obj, ensure_ascii=True, **kw)
    return txt


def jhash(obj):
    return hashlib.md5(repr(obj).encode("utf-8", "backslashreplace")).digest()[:8]


def jsonable(x):
    """Best-effort conversion of a case to something json can hold."""
    import datetime as _dt

    if isinstance(x, dict):
        return {str(k): jsonable(v) for k, v in x.items()}
    if isinstance(x, (list, tuple)):
        return [jsonable(v) for v in x]
    if isinstance(x, (set, frozenset)):
        return sorted((jsonable(v) for v in x), key=repr)
    if isinstance(x, _dt.datetime):
        return x.isoformat()
    if isinstance(x, _dt.date):
        return x.isoformat()
    if isinstance(x, (str, int, float, bool)) or x is None:
        return x
    return repr(x)


def parse_ts(s):
    import datetime as _dt

    if isinstance(s, _dt.datetime):
        return s
    return _dt.datetime.fromisoformat(s)


# ---------------------------------------------------------------------------------
# known findings


def load_known(pid):
    path = os.path.join(VERIF, "known_findings.json")
    if not os.path.exists(path):
        return []
    with open(path, encoding="utf-8") as fd:
        data = json.load(fd)
    return [f for f in data.get("findings", []) if f.get("property") == pid]


def match_known(case, known):
    """A failure is a known finding only if its *input* matches a listed entry: every key
    of entry['match'] must be present in the case with an equal value."""
    for k in known:
        m = k["match"]
        ok = True
        for key, val in m.items():
            got = jsonable(case.get(key))
            if isinstance(val, dict) and "any_of" in val:
                ok = got in val["any_of"]
            else:
                ok = got == val
            if not ok:
                break
        if ok:
            return k
    return None


# ---------------------------------------------------------------------------------
# accumulator

MAX_FAIL_PER_BUCKET = 25
MAX_SAMPLES = 8


class Acc:
    """Counters of one (shard of a) run.  Picklable; merge() is associative."""

    def __init__(self, pid=None):
        self.pid = pid
        self.n = 0
        self.nt = set()
        self.classes = collections.Counter()
        self.samples = []  # list of (hash, sample)
        self.failures = collections.OrderedDict()  # bucket -> list of (case, detail)
        self.fail_counts = collections.Counter()
        self.known_seen = collections.Counter()
        self.inconclusive = 0
        self.notes = collections.Counter()
        self._known = load_known(pid) if pid else []

    def __getstate__(self):
        d = dict(self.__dict__)
        d["_known"] = []
        return d

    def case(self, key, nontrivial=False, cls=None, sample=None):
        self.n += 1
        if nontrivial:
            self.nt.add(jhash(key))
        if cls is not None:
            if isinstance(cls, (list, tuple, set)):
                for c in cls:
                    self.classes[c] += 1
            else:
                self.classes[cls] += 1
        if sample is not None:
            h = jhash(key)
            if len(self.samples) < MAX_SAMPLES or h < self.samples[-1][0]:
                self.samples.append((h, jsonable(sample)))
                self.samples.sort(key=lambda t: t[0])
                del self.samples[MAX_SAMPLES:]

    def fail(self, bucket, case, detail=""):
        """Record a failure.  case must be a dict sufficient for replay (and for matching
        against known findings)."""
        k = match_known(case, self._known)
        if k is not None:
            self.known_seen[k["id"]] += 1
            return False
        bucket = str(bucket)
        self.fail_counts[bucket] += 1
        lst = self.failures.setdefault(bucket, [])
        if len(lst) < MAX_FAIL_PER_BUCKET:
            lst.append((jsonable(case), str(detail)[:2000]))
        return True

    def merge(self, o):
        self.n += o.n
        self.nt |= o.nt
        self.classes.update(o.classes)
        self.samples = sorted(self.samples + o.samples, key=lambda t: t[0])
        # dedupe
        seen = set()
        out = []
        for h, s in self.samples:
            if h in seen:
                continue
            seen.add(h)
            out.append((h, s))
        self.samples = out[:MAX_SAMPLES]
        for b, lst in o.failures.items():
            mine = self.failures.setdefault(b, [])
            mine.extend(lst[: MAX_FAIL_PER_BUCKET - len(mine)])
        self.fail_counts.update(o.fail_counts)
        self.known_seen.update(o.known_seen)
        self.inconclusive += o.inconclusive
        self.notes.update(o.notes)
        return self


# ---------------------------------------------------------------------------------
# sharded execution


def _worker(args):
    fn, arg = args
    try:
        return ("ok", fn(arg))
    except HarnessError as e:
        return ("harness", repr(e))
    except BaseException:
        return ("crash", traceback.format_exc())


def pmap(fn, shard_args, nproc=None):
    """Run fn(arg) for each arg in worker processes (fork; PYTHONHASHSEED is inherited
    from ./check which sets it to 0).  Results come back in shard order.  A worker crash
    is a harness error."""
    shard_args = list(shard_args)
    nproc = min(nproc or NPROC, max(1, len(shard_args)))
    if nproc == 1 or os.environ.get("QAV_SERIAL"):
        res = [_worker((fn, a)) for a in shard_args]
    else:
        ctx = mp.get_context("fork")
        with ctx.Pool(nproc, maxtasksperchild=None) as pool:
            res = pool.map(_worker, [(fn, a) for a in shard_args], chunksize=1)
    out = []
    for tag, val in res:
        if tag != "ok":
            raise HarnessError("worker failed ({}):\n{}".format(tag, val))
        out.append(val)
    return out


def pmap_acc(pid, fn, shard_args, nproc=None):
    acc = Acc(pid)
    for a in pmap(fn, shard_args, nproc):
        acc.merge(a)
    return acc


def chunks(seq, n):
    """Split seq into n interleaved shards (deterministic)."""
    seq = list(seq)
    n = max(1, min(n, len(seq)))
    return [seq[i::n] for i in range(n)]


# ---------------------------------------------------------------------------------
# hypothesis driver


def hyp_run(strategy, body, n, seed_value, stateful=False):
    """Drive body(case) with n generated cases.  body records failures itself (collect, do
    not stop at the first failure), so no shrink phase is needed here."""
    from hypothesis import HealthCheck, Phase, given, seed, settings

    @seed(seed_value)
    @settings(
        max_examples=n,
        database=None,
        deadline=None,
        derandomize=False,
        report_multiple_bugs=False,
        suppress_health_check=list(HealthCheck),
        phases=[Phase.generate],
    )
    @given(strategy)
    def _t(case):
        body(case)

    _t()


def shard_seed(base, shard, salt=0):
    return (int(base) * 1000003 + shard * 7919 + salt * 104729 + 12345) % (2 ** 31)


# ---------------------------------------------------------------------------------
# context / finishing


def run_regress(pid, mod):
    """Seconds-long regression tier: re-execute every saved replay of this property
    (regress/<ID>/*.json, committed; they include the replays of repaired defects)."""
    acc = Acc(pid)
    d = os.path.join(VERIF, "regress", pid)
    if not os.path.isdir(d):
        return acc
    for name in sorted(os.listdir(d)):
        if not name.endswith(".json"):
            continue
        with open(os.path.join(d, name), encoding="utf-8") as fd:
            data = json.load(fd)
        res = mod.replay(data["case"])
        acc.n += 1
        acc.classes["regress-replay"] += 1
        if res:
            acc.fail("regress:" + str(res[0]), data["case"], "{}: {}".format(name, res[1]))
    return acc


class Ctx:
    def __init__(self, pid, tier, seed, replay=None):
        self.pid = pid
        self.tier = tier
        self.seed = seed
        self.replay = replay
        self.t0 = time.time()
        self.thorough = tier == "thorough"


def greedy_shrink(case, fails, candidates, budget=300):
    """Generic shrinker: repeatedly move to the first simpler candidate that still fails
    (fails(case) -> bucket or None; the bucket must stay the same)."""
    bucket = fails(case)
    if bucket is None:
        return case
    spent = 0
    improved = True
    while improved and spent < budget:
        improved = False
        for c in candidates(case):
            spent += 1
            if spent > budget:
                break
            try:
                b = fails(c)
            except HarnessError:
                raise
            except Exception:
                b = None
            if b == bucket:
                case = c
                improved = True
                break
    return case


def finish(ctx, acc, rule, level="exploration", exhaustive=False, assumptions=(), extra=None,
           shrinker=None):
    """Print KNOWN-FINDING / VIOLATION lines, write replays and the evidence file, return
    the exit code."""
    known = {k["id"]: k for k in load_known(ctx.pid)}
    if getattr(ctx, "regress", None) is not None:
        acc.merge(ctx.regress)
    for kid, cnt in sorted(acc.known_seen.items()):
        print("KNOWN-FINDING: property={} {} [{}; {} case(s) excluded]".format(
            ctx.pid, known[kid]["what"], kid, cnt))
    nviol = 0
    os.makedirs(os.path.join(VERIF, "replays"), exist_ok=True)
    bucket_report = {}
    for bucket, lst in acc.failures.items():
        lst = sorted(lst, key=lambda cd: (len(json.dumps(cd[0], sort_keys=True)), json.dumps(cd[0], sort_keys=True)))
        case, detail = lst[0]
        if shrinker is not None:
            try:
                case2, detail2 = shrinker(case, bucket)
                if case2 is not None:
                    case, detail = case2, detail2 or detail
            except HarnessError:
                raise
            except Exception:
                pass
        h = hashlib.md5(json.dumps([bucket, case], sort_keys=True).encode()).hexdigest()[:10]
        path = os.path.join("replays", "{}-{}.json".format(ctx.pid, h))
        with open(os.path.join(VERIF, path), "w", encoding="utf-8") as fd:
            fd.write(json_text({"property": ctx.pid, "bucket": bucket, "case": case, "detail": detail,
                                "found": {"tier": ctx.tier, "seed": ctx.seed}}, indent=1, sort_keys=True))
        print("VIOLATION property={} replay={}".format(ctx.pid, os.path.join(VERIF, path)))
        print("  bucket: {} ({} failing case(s))".format(bucket, acc.fail_counts[bucket]))
        print("  case: {}".format(json_text(case, sort_keys=True)[:600]))
        print("  detail: {}".format(detail[:600].encode("utf-8", "backslashreplace").decode("utf-8")))
        bucket_report[bucket] = acc.fail_counts[bucket]
        nviol += 1
    cov = {
        "evaluations": acc.n,
        "distinct_nontrivial": len(acc.nt),
        "rule": rule,
        "samples": [s for _, s in acc.samples],
        "classes": dict(sorted(acc.classes.items(), key=lambda kv: str(kv[0]))),
        "exhaustive": bool(exhaustive),
        "inconclusive": acc.inconclusive,
        "known_findings_seen": dict(acc.known_seen),
        "failure_buckets": bucket_report,
        "notes": dict(acc.notes),
        "repo": REPO,
    }
    if extra:
        cov.update(extra)
    ev = {
        "property_id": ctx.pid,
        "tier": ctx.tier,
        "seed": int(ctx.seed),
        "level": level,
        "coverage": jsonable(cov),
        "assumptions": list(assumptions),
        "wall_s": round(time.time() - ctx.t0, 2),
        "violations": nviol,
    }
    if acc.n < 1 or len(acc.nt) < 2:
        raise HarnessError("vacuous run: evaluations={} nontrivial={}".format(acc.n, len(acc.nt)))
    if os.environ.get("QAV_NO_EVIDENCE"):
        # sensitivity runs against scratch copies must not overwrite evidence / replays of /repo
        print("{} (scratch run, evidence not written) evaluations={} nontrivial={} violations={}".format(
            ctx.pid, acc.n, len(acc.nt), nviol))
        return 1 if nviol else 0
    os.makedirs(os.path.join(VERIF, "evidence"), exist_ok=True)
    tmp = os.path.join(VERIF, "evidence", ctx.pid + ".json.tmp")
    with open(tmp, "w", encoding="utf-8") as fd:
        fd.write(json_text(ev, indent=1))
    os.replace(tmp, os.path.join(VERIF, "evidence", ctx.pid + ".json"))
    print("{} tier={} seed={} evaluations={} nontrivial={} inconclusive={} violations={} wall={}s".format(
        ctx.pid, ctx.tier, ctx.seed, acc.n, len(acc.nt), acc.inconclusive, nviol, ev["wall_s"]))
    return 1 if nviol else 0
