"""Independent observation helpers and the calendar oracle (DESIGN 3.3, 3.4).
Nothing here uses dateutil or the library's own __eq__/__hash__/nb_str."""
import calendar
import datetime as dt
import unicodedata

from . import core

# ---------------------------------------------------------------------------------
# value observation


def tvalue(t):
    if t is None:
        return None
    return ("T", t.year, t.month, t.day, t.hour, t.minute, t.DOW, t.POD)


def value(x):
    """Tuple of the fields that make up the denoted value; spans excluded."""
    if x is None:
        return None
    n = type(x).__name__
    if n == "Time":
        return tvalue(x)
    if n == "Interval":
        return ("I", tvalue(x.t_from), tvalue(x.t_to))
    if n == "Duration":
        u = x.unit
        return ("D", x.value, getattr(u, "value", u))
    return ("?", n, repr(x))


def span(x):
    return (x.mstart, x.mend)


def T(year=None, month=None, day=None, hour=None, minute=None, DOW=None, POD=None):
    return ("T", year, month, day, hour, minute, DOW, POD)


def Tdate(d):
    return ("T", d.year, d.month, d.day, None, None, None, None)


def Tdt(d):
    return ("T", d.year, d.month, d.day, d.hour, d.minute, None, None)


def vstr(v):
    if v is None:
        return "None"
    if v[0] == "T":
        f = lambda x, w: "X" if x is None else ("{:0%dd}" % w).format(x)  # noqa
        return "{}-{}-{} {}:{} ({}/{})".format(f(v[1], 4), f(v[2], 2), f(v[3], 2), f(v[4], 2),
                                               f(v[5], 2), "X" if v[6] is None else v[6],
                                               "X" if v[7] is None else v[7])
    if v[0] == "I":
        return "[{} - {}]".format(vstr(v[1]), vstr(v[2]))
    return repr(v)


def nb_ref(v):
    """the annotation string of a value as the bundled corpora write it (reference for nb_str)"""
    if v[0] == "T":
        return "Time[]{" + vstr(v) + "}"
    if v[0] == "I":
        return "Interval[]{" + vstr(v[1]) + " - " + vstr(v[2]) + "}"
    if v[0] == "D":
        return "Duration[]{" + "{} {}".format(v[1], v[2]) + "}"
    raise ValueError(v)


# ---------------------------------------------------------------------------------
# normaliser oracle (C11; coordinate system of spans)

_SEP_CATS = {"Zs", "Zl", "Zp", "Cc", "Cf", "Cs", "Co", "Cn", "Ps", "Pe"}


def is_sep(ch):
    return ch in ",;" or unicodedata.category(ch) in _SEP_CATS


def is_dash(ch):
    return unicodedata.category(ch) == "Pd" or ch == "⁃"


def N(text):
    """Reference normaliser: runs of separators -> one blank; strip; runs of dashes -> '-';
    strip."""
    out = []
    prev_sep = False
    for ch in text:
        if is_sep(ch):
            if not prev_sep:
                out.append(" ")
            prev_sep = True
        else:
            out.append(ch)
            prev_sep = False
    s = "".join(out).strip()
    out = []
    prev_dash = False
    for ch in s:
        if is_dash(ch):
            if not prev_dash:
                out.append("-")
            prev_dash = True
        else:
            out.append(ch)
            prev_dash = False
    return "".join(out).strip()


# ---------------------------------------------------------------------------------
# calendar oracle: date.toordinal arithmetic only


def mdays(y, m):
    return calendar.monthrange(y, m)[1]


def valid_date(y, m, d):
    return 1 <= m <= 12 and 1 <= d <= mdays(y, m)


def next_weekday_strict(d, wd):
    """first date strictly after d with weekday wd (0=Monday)"""
    k = (wd - d.weekday()) % 7
    if k == 0:
        k = 7
    return d + dt.timedelta(days=k)


def next_weekday_on_or_after(d, wd):
    k = (wd - d.weekday()) % 7
    return d + dt.timedelta(days=k)


def last_of_month(d):
    return dt.date(d.year, d.month, mdays(d.year, d.month))


def last_of_year(d):
    return dt.date(d.year, 12, 31)


def next_dom_strict(d, n):
    """first date strictly after d whose day of month is n (months lacking it are skipped)"""
    y, m = d.year, d.month
    for _ in range(50):
        if n <= mdays(y, m):
            c = dt.date(y, m, n)
            if c > d:
                return c
        m += 1
        if m == 13:
            y, m = y + 1, 1
    raise AssertionError("no such day")


def next_doy_on_or_after(d, month, day):
    """first date >= d with this month and day (29 Feb waits for a leap year)"""
    y = d.year
    for _ in range(12):
        if valid_date(y, month, day):
            c = dt.date(y, month, day)
            if c >= d:
                return c
        y += 1
    raise AssertionError("no such date")


def add_months(d, n):
    """calendar month arithmetic with end-of-month clipping (31 Jan + 1 month = 28/29 Feb)"""
    k = d.year * 12 + (d.month - 1) + n
    y, m = divmod(k, 12)
    m += 1
    day = min(d.day, mdays(y, m))
    return d.replace(year=y, month=m, day=day)


def next_clock_strict(ts, h, mi):
    """first datetime with hour h minute mi strictly after the reference instant"""
    c = ts.replace(hour=h, minute=mi, second=0, microsecond=0)
    if c <= ts:
        c += dt.timedelta(days=1)
    return c


# ---------------------------------------------------------------------------------
# reference-time sweeps

CYCLE_START = dt.date(2016, 1, 1)
CYCLE_END = dt.date(2043, 12, 31)


def cycle_dates():
    d = CYCLE_START
    one = dt.timedelta(days=1)
    while d <= CYCLE_END:
        yield d
        d += one


def is_edge(d):
    if d.day <= 2 or d.day >= 27:
        return True
    if d.weekday() in (6, 0):
        return d.year % 4 == 0  # week boundaries of leap years only (keeps EDGE small)
    return False


def edge_dates():
    return [d for d in cycle_dates() if is_edge(d)]


SWEEP_TIMES = [dt.time(0, 0, 0), dt.time(12, 43, 0), dt.time(23, 59, 59, 999999)]


# ---------------------------------------------------------------------------------
# parse helpers


def cands(text, ts, **opts):
    """All streamed candidates (list of CTParse), no timeout."""
    m = core.load_repo()
    opts.setdefault("timeout", 0)
    return [c for c in m.ctparse_gen(text, ts, **opts) if c is not None]


def best(text, ts, **opts):
    m = core.load_repo()
    opts.setdefault("timeout", 0)
    return m.ctparse(text, ts, **opts)


def bestval(text, ts, **opts):
    r = best(text, ts, **opts)
    return value(r.resolution) if r is not None else None


def n_regex_matches(text):
    """Number of pattern matches on the cleaned text, counted with the library's own
    matcher (used only as a work bound, DESIGN 3.8)."""
    m = core.load_repo()
    import re as _re

    t = m._preprocess_string(text)
    t = _re.sub("#[a-zA-Z0-9_-]+", "", t).strip()
    return len(m._match_regex(t, m.global_regex))
