#!/bin/bash
# tools/selftest_seeds.sh [name-glob]: re-apply every kept seeded change to a scratch copy of /repo and run the checks that are
# recorded as catching it; prints one line per seed (applies? still caught?).  The scratch copies are removed.
cd /verif
for d in seeded/${1:-*}/; do
  n=$(basename "$d")
  ids=$(python3 -c "import json;print(' '.join(json.load(open('$d/meta.json')).get('caught_by',[])[:1]))")
  [ -z "$ids" ] && { echo "$n: no check recorded"; continue; }
  D=$(mktemp -d /tmp/qa-self-XXXXXX)
  rsync -a --exclude .git --exclude build --exclude '*.egg-info' --exclude __pycache__ /repo/ "$D/"
  if ! ( cd "$D" && patch -s -p1 --dry-run < "/verif/$d/patch.diff" >/dev/null 2>&1 ); then echo "$n: patch does not apply to the current tree (written for an earlier commit)"; rm -rf "$D"; continue; fi
  ( cd "$D" && patch -s -p1 < "/verif/$d/patch.diff" )
  res=""
  for id in $ids; do
    QAV_REPO="$D" QAV_NO_EVIDENCE=1 ./check "$id" --tier quick >/dev/null 2>&1; res="$res $id=exit$?"
  done
  echo "$n:$res"
  rm -rf "$D"
done
find /verif/replays -name '*.json' -delete 2>/dev/null
