#!/bin/bash
# tools/keep_round4.sh <ID> [extra check ids...]: evaluate and keep the three round-4 seeds of a property (names <ID>-i/j/k)
P="$1"; shift
cd /verif
for k in 1 2 3; do
  n=$P-$(echo i j k | cut -d' ' -f$k)
  python3 tools/keep_seed.py /tmp/w4-$P $k $n $P "$@" 2>&1 | grep -E "demo|passed|== |bucket|kept|NOT|patch failed" | cut -c1-220
done
