#!/bin/bash
# tools/try_patch.sh [-t] <patch.diff> <ID> [<ID>...]   run quick checks against a scratch copy of /repo with the patch applied
# -t also runs the repository's test-suite on the scratch copy.  The scratch copy is removed afterwards.
RUNTESTS=0; [ "$1" = "-t" ] && { RUNTESTS=1; shift; }
PATCH="$(readlink -f "$1")"; shift
D=$(mktemp -d /tmp/qa-mut-XXXXXX)
rsync -a --exclude .git --exclude build --exclude '*.egg-info' --exclude __pycache__ /repo/ "$D/"
( cd "$D" && patch -s -p1 < "$PATCH" ) || { echo "patch failed"; rm -rf "$D"; exit 3; }
if [ $RUNTESTS = 1 ]; then ( cd "$D" && PYTHONPATH="$D" /venv/bin/python -m pytest -q -p no:cacheprovider --timeout=900 2>&1 | tail -2 ); fi
for id in "$@"; do
  out=$(cd /verif && QAV_REPO="$D" QAV_NO_EVIDENCE=1 ./check "$id" --tier "${TIER:-quick}" 2>&1); rc=$?
  echo "== $id exit=$rc $(echo "$out" | grep -c '^VIOLATION') violation line(s)"
  echo "$out" | grep -A3 '^VIOLATION' | cut -c1-300 | head -${SHOW:-12}
done
rm -rf "$D"
