#!/usr/bin/env python3
"""Regenerate the seed table of DESIGN.md section 6 from seeded/*/meta.json."""
import json
import os
import re

V = os.path.dirname(os.path.dirname(os.path.abspath(__file__)))


def cell(s, n):
    s = re.sub(r"\s+", " ", str(s)).replace("|", "/")
    return s[:n]


def main():
    rows = []
    for d in sorted(os.listdir(os.path.join(V, "seeded"))):
        mp = os.path.join(V, "seeded", d, "meta.json")
        if not os.path.exists(mp):
            continue
        m = json.load(open(mp, encoding="utf-8"))
        rows.append("| {} | {} | {} | {} |".format(d, cell(m.get("summary", ""), 160), cell(m.get("needs", ""), 140),
                                                   ", ".join(m.get("caught_by") or []) or "**none**"))
    p = os.path.join(V, "DESIGN.md")
    lines = open(p, encoding="utf-8").read().split("\n")
    hdr = lines.index("| seed | change | needs | caught by (quick tier) |")
    end = hdr + 2
    while end < len(lines) and lines[end].startswith("| C"):
        end += 1
    lines[hdr + 2:end] = rows
    open(p, "w", encoding="utf-8").write("\n".join(lines))
    print(len(rows), "rows")


if __name__ == "__main__":
    main()
