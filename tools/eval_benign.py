#!/usr/bin/env python3
"""tools/eval_benign.py <worktree> <k> <name> [<ID>...]
Apply a sub-agent's property-PRESERVING change (seed/patch<k>.diff) in its worktree, run the repository's
test suite and the quick tier of the given checks (default: all registered) against it, revert, and keep the
change with the outcome as /verif/benign/<name>/ (patch.diff, meta.json).  A check that exits 1 or 2 here is
either over-reach of the check or a change that does break a property after all - to be decided by reading."""
import json
import os
import re
import shutil
import subprocess
import sys
import time

HERE = os.path.dirname(os.path.dirname(os.path.abspath(__file__)))


def sh(cmd, cwd=None, env=None, timeout=None):
    return subprocess.run(cmd, shell=True, cwd=cwd, env=env, capture_output=True, text=True, timeout=timeout)


def main():
    wt, k, name = sys.argv[1:4]
    ids = sys.argv[4:]
    if ids == ["all"]:
        ids = [c["property_id"] for c in json.load(open(os.path.join(HERE, "MANIFEST.json")))["checks"]]
    if not ids:
        # the properties the author says the change touches, plus the checks that look at internals
        m = json.load(open(os.path.join(wt, "seed", "meta%s.json" % k)))
        ids = sorted(set(x for x in m.get("touches_properties", []) if re.fullmatch(r"C\d\d", x)) | {"C01", "C12", "C13", "C15", "C19"})
    patch = os.path.join(wt, "seed", "patch%s.diff" % k)
    sh("git checkout -q -- . && git clean -fdq -e seed", cwd=wt)   # also files a previous patch created
    r = sh("git apply " + patch, cwd=wt)
    if r.returncode:
        print("patch failed", r.stderr)
        return 3
    # the sub-agents' worktrees are based on b79697b; repository fixes made since then are carried over textually
    # (the same two pattern strings, wherever the change moved them) so that the base defect they repair is not
    # reported against the benign change
    carried = 0
    for dirpath, dirs, files in os.walk(os.path.join(wt, "ctparse")):
        for fn in files:
            if fn.endswith(".py"):
                fp = os.path.join(dirpath, fn)
                src = open(fp, encoding="utf-8").read()
                new = src.replace('_rule_named_number = r"({})\\s*".format(', '_rule_named_number = r"\\b({})\\s*".format(')
                new = new.replace('@rule(r"(hal[fb]e?|1/2)(\\s+an?)?\\s*"', '@rule(r"\\b(hal[fb]e?|1/2)(\\s+an?)?\\s*"')
                new = new.replace('_rule_named_number = rf"({_rule_named_number})\\s*"', '_rule_named_number = rf"\\b({_rule_named_number})\\s*"')
                if new != src:
                    open(fp, "w", encoding="utf-8").write(new)
                    carried += src.count('_rule_named_number = r"({})\\s*".format(') + src.count('@rule(r"(hal[fb]e?|1/2)(\\s+an?)?\\s*"') + src.count('_rule_named_number = rf"({_rule_named_number})\\s*"')
    print("base fix 47e75a7 carried over at {} of 2 places".format(carried))
    env = dict(os.environ, PYTHONPATH=wt)
    t = sh("/venv/bin/python -m pytest -q -p no:cacheprovider --timeout=900 2>&1 | tail -1", cwd=wt, env=env).stdout.strip()
    print("tests:", t)
    res = {}
    for i in ids:
        t0 = time.time()
        r = sh("./check {} --tier quick".format(i), cwd=HERE, env=dict(os.environ, QAV_REPO=wt, QAV_NO_EVIDENCE="1"))
        viol = [l for l in r.stdout.split("\n") if l.startswith("VIOLATION")]
        buckets = re.findall(r"bucket: ([^\n]*)", r.stdout)
        res[i] = {"exit": r.returncode, "violation_lines": len(viol), "buckets": buckets[:6], "seconds": round(time.time() - t0)}
        print("== {} exit={} {} violation line(s) {}".format(i, r.returncode, len(viol), buckets[:3]), flush=True)
        if r.returncode == 2:
            print((r.stdout + r.stderr)[-1500:])
        if r.returncode == 1:
            # keep the replays of this run for reading
            d = os.path.join("/tmp/benign-replays", name, i)
            shutil.rmtree(d, ignore_errors=True)
            os.makedirs(d)
            for m in re.finditer(r"replay=(\S+)", r.stdout):
                if os.path.exists(m.group(1)):
                    shutil.copy(m.group(1), d)
            open(os.path.join(d, "stdout.txt"), "w").write(r.stdout[-20000:])
    sh("git checkout -q -- . && git clean -fdq -e seed", cwd=wt)
    sh("find . -name __pycache__ -type d -prune -exec rm -rf {} +", cwd=wt)
    d = os.path.join(HERE, "benign", name)
    os.makedirs(d, exist_ok=True)
    shutil.copy(patch, os.path.join(d, "patch.diff"))
    meta = json.load(open(os.path.join(wt, "seed", "meta%s.json" % k)))
    meta.update({"pytest_with_change": t, "checks_run": res, "base_fix_47e75a7_places_carried_over": carried,
                 "alarms": sorted(i for i, v in res.items() if v["exit"] == 1),
                 "harness_errors": sorted(i for i, v in res.items() if v["exit"] == 2)})
    json.dump(meta, open(os.path.join(d, "meta.json"), "w"), indent=1, ensure_ascii=False)
    print("kept as", d, "alarms", meta["alarms"], "harness_errors", meta["harness_errors"])
    return 0


if __name__ == "__main__":
    sys.exit(main())
