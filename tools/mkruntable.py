#!/usr/bin/env python3
"""Regenerate the table of DESIGN.md section 9 from evidence/*.json (last quick run) and tools/last_thorough_run.log."""
import json
import os
import re

V = os.path.dirname(os.path.dirname(os.path.abspath(__file__)))


def main():
    th = {}
    for line in open(os.path.join(V, "tools", "last_thorough_run.log"), encoding="utf-8"):
        m = re.match(r"(C\d\d) seed=\d+ exit=(\d+) (\d+)s :: .*evaluations=(\d+)", line)
        if m:
            th[m.group(1)] = "{} evaluations, {} s, exit {}".format(m.group(4), m.group(3), m.group(2))
    rows = []
    for i in range(1, 21):
        pid = "C{:02d}".format(i)
        ev = json.load(open(os.path.join(V, "evidence", pid + ".json"), encoding="utf-8"))
        rows.append("| {} | {} | {} | {} | {} s | {} |".format(
            pid, ev.get("level", ""), ev["coverage"].get("evaluations"), ev["coverage"].get("distinct_nontrivial"),
            ev.get("wall_s"), th.get(pid, "")))
    p = os.path.join(V, "DESIGN.md")
    lines = open(p, encoding="utf-8").read().split("\n")
    hdr = lines.index("| ID | level | evaluations | distinct non-trivial | wall | thorough tier (observed) |")
    end = hdr + 2
    while end < len(lines) and lines[end].startswith("| C"):
        end += 1
    lines[hdr + 2:end] = rows
    open(p, "w", encoding="utf-8").write("\n".join(lines))
    print(len(rows), "rows")


if __name__ == "__main__":
    main()
