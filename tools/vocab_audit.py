#!/usr/bin/env python3
"""tools/vocab_audit.py <logdir> [--ids C03,C04,...]

Which alternatives / optional parts of the library's patterns does the checks' generated text never exercise?

1. Run checks with QAV_TEXT_LOG=<logdir> (done by this tool when --ids is given): every distinct text handed to
   the pattern matcher is recorded.
2. For every registered pattern (and every DEFINE fragment) build removal mutants: one alternative of an
   alternation dropped, or one optional atom `x?` dropped.
3. A mutant is *exercised* if some recorded text gives a different set of (span, named groups) matches under the
   mutated pattern.  Everything else is listed: either an equivalent mutant (another alternative covers the same
   strings) or a notation the frozen vocabulary of the checks omits.

Output: /verif/tools/vocab_audit.out.json and a readable summary on stdout.  This is an audit of the harness'
vocabulary (DESIGN 7), not a check of the library; it is not registered in MANIFEST.json."""
import json
import multiprocessing
import os
import subprocess
import sys

V = os.path.dirname(os.path.dirname(os.path.abspath(__file__)))
sys.path.insert(0, V)
os.environ.setdefault("PYTHONHASHSEED", "0")


def split_regions(p):
    """yield mutants (kind, description, new_pattern) of pattern string p"""
    n = len(p)
    # tokenise: find group structure
    stack = [{"start": -1, "alts": [0], "open_len": 0}]
    groups = []
    atoms_end = []  # (start, end) of the atom that ends at end
    i = 0
    last_atom = None
    atom_at = {}
    while i < n:
        c = p[i]
        if c == "\\":
            last_atom = (i, i + 2)
            # \p{..}
            if i + 2 < n and p[i + 1] in "pP" and p[i + 2] == "{":
                j = p.index("}", i)
                last_atom = (i, j + 1)
            i = last_atom[1]
            atom_at[i] = last_atom
            continue
        if c == "[":
            j = i + 1
            if j < n and p[j] == "^":
                j += 1
            if j < n and p[j] == "]":
                j += 1
            while j < n and p[j] != "]":
                if p[j] == "\\":
                    j += 1
                j += 1
            last_atom = (i, j + 1)
            i = j + 1
            atom_at[i] = last_atom
            continue
        if c == "(":
            # group header
            j = i + 1
            if p.startswith("(?P<", i) or p.startswith("(?<", i) and not p.startswith("(?<=", i) and not p.startswith("(?<!", i):
                j = p.index(">", i) + 1
            elif p.startswith("(?:", i) or p.startswith("(?=", i) or p.startswith("(?!", i):
                j = i + 3
            elif p.startswith("(?<=", i) or p.startswith("(?<!", i):
                j = i + 4
            elif p.startswith("(?&", i) or p.startswith("(?(", i) or p.startswith("(?i)", i):
                # subroutine call / conditional / flag: treat as opaque atom up to the matching paren
                depth = 0
                j = i
                while True:
                    if p[j] == "\\":
                        j += 2
                        continue
                    if p[j] == "(":
                        depth += 1
                    elif p[j] == ")":
                        depth -= 1
                        if depth == 0:
                            break
                    j += 1
                last_atom = (i, j + 1)
                i = j + 1
                atom_at[i] = last_atom
                continue
            stack.append({"start": i, "alts": [j], "body": j})
            i = j
            continue
        if c == ")":
            g = stack.pop()
            g["end"] = i
            groups.append(g)
            last_atom = (g["start"], i + 1)
            i += 1
            atom_at[i] = last_atom
            continue
        if c == "|":
            stack[-1]["alts"].append(i + 1)
            i += 1
            continue
        if c in "?*+{" :
            i += 1
            continue
        last_atom = (i, i + 1)
        i += 1
        atom_at[i] = last_atom
    top = stack[0]
    top["end"] = n
    top["body"] = 0
    groups.append(top)
    out = []
    for g in groups:
        starts = g["alts"]
        if len(starts) < 2:
            continue
        bounds = []
        for k, s in enumerate(starts):
            e = (starts[k + 1] - 1) if k + 1 < len(starts) else g["end"]
            bounds.append((s, e))
        for k, (s, e) in enumerate(bounds):
            if s == e:
                continue  # empty alternative
            if k + 1 < len(bounds):
                new = p[:s] + p[e + 1:]
            else:
                new = p[:s - 1] + p[e:]
            out.append(("alt", p[s:e], new, s))
    # optional atoms
    for end, (a, b) in sorted(atom_at.items()):
        if end < n and p[end] == "?" and not (end + 1 < n and p[end + 1] in "?+"):
            if p[a:b] in (" ", "\\s", "\\.", "\\-", "-", "\\s*"):
                continue  # optional blank/dot/dash: not vocabulary
            out.append(("opt", p[a:b] + "?", p[:a] + p[end + 1:], a))
    return out


def load_texts(logdir):
    texts = set()
    for f in os.listdir(logdir):
        with open(os.path.join(logdir, f), encoding="utf-8") as fd:
            for line in fd:
                try:
                    texts.add(json.loads(line))
                except Exception:
                    pass
    return sorted(texts)


_G = {}


def _witness(arg):
    rid, texts = arg
    import regex
    rr = _G["regex"][rid]
    out = set()
    for t in texts:
        for m in rr.finditer(t, overlapped=True):
            s, e = m.span()
            out.add(t[max(0, s - 14): e + 14])
            if len(out) > 60000:
                return rid, sorted(out)
    return rid, sorted(out)


def sig(rr, t):
    out = set()
    try:
        for m in rr.finditer(t, overlapped=True, timeout=2):
            out.add((m.span(), tuple(sorted((k, v) for k, v in m.groupdict().items() if v is not None and not k.startswith("R")))))
    except TimeoutError:
        out.add("timeout")
    return out


def _mutants_of(arg):
    rid, full, body_off, snippets, mutants = arg
    import regex
    orig = regex.compile(full, regex.VERSION1)
    base = None
    res = []
    for kind, frag, newfull in mutants:
        try:
            mr = regex.compile(newfull, regex.VERSION1)
        except Exception as e:
            res.append((kind, frag, "uncompilable"))
            continue
        if base is None:
            base = [sig(orig, t) for t in snippets]
        killed = None
        for t, b in zip(snippets, base):
            if sig(mr, t) != b:
                killed = t
                break
        res.append((kind, frag, killed))
    return rid, res


def main():
    logdir = sys.argv[1]
    ids = None
    if "--ids" in sys.argv:
        ids = sys.argv[sys.argv.index("--ids") + 1].split(",")
    if ids:
        os.makedirs(logdir, exist_ok=True)
        for i in ids:
            r = subprocess.run(["./check", i, "--tier", "quick"], cwd=V, capture_output=True, text=True,
                               env=dict(os.environ, QAV_TEXT_LOG=logdir, QAV_TEXT_LOG_TAG=i, QAV_NO_EVIDENCE="1"))
            print(i, "exit", r.returncode, r.stdout.strip().split("\n")[-1][:120], flush=True)
    from qav import core
    core.load_repo()
    from ctparse import rule as R
    texts = load_texts(logdir)
    print(len(texts), "distinct texts")
    _G["regex"] = R._regex
    prefix_len = len(R._defines)
    with multiprocessing.get_context("fork").Pool(16) as pool:
        wit = dict(pool.map(_witness, [(rid, texts) for rid in sorted(R._regex)]))
        jobs = []
        names = ["_hour", "_minute", "_day", "_month", "_year"]
        frags = {"_hour": R._regex_hour, "_minute": R._regex_minute, "_day": R._regex_day, "_month": R._regex_month,
                 "_year": R._regex_year}
        for rid in sorted(R._regex):
            full = R._regex[rid].pattern
            assert full.startswith(R._defines), rid
            body = R._regex_str[rid]
            off = full.index(body, prefix_len)
            muts = [(k, frag, full[:off] + new + full[off + len(body):]) for k, frag, new, _ in split_regions(body)]
            # DEFINE fragments used by this pattern
            for nm in names:
                if "(?&" + nm + ")" in body:
                    f = frags[nm]
                    o2 = full.index(f)
                    for k, frag, new, _ in split_regions(f):
                        muts.append(("define" + nm + ":" + k, frag, full[:o2] + new + full[o2 + len(f):]))
            # one job per ~12 mutants
            for c in range(0, len(muts), 12):
                jobs.append((rid, full, off, wit[rid], muts[c:c + 12]))
        results = pool.map(_mutants_of, jobs, chunksize=1)
    per = {}
    define_kill = {}
    for rid, res in results:
        for kind, frag, killed in res:
            if kind.startswith("define"):
                key = (kind, frag)
                define_kill[key] = define_kill.get(key) or killed
            else:
                per.setdefault(rid, []).append((kind, frag, killed))
    report = {"texts": len(texts), "patterns": {}, "defines": []}
    tot = unk = 0
    for rid in sorted(per):
        un = [(k, f) for k, f, killed in per[rid] if not killed]
        tot += len(per[rid])
        unk += len(un)
        report["patterns"][str(rid)] = {"pattern": R._regex_str[rid], "witness_snippets": len(wit[rid]), "mutants": len(per[rid]),
                                        "not_exercised": un}
    dn = [(k, f) for (k, f), killed in sorted(define_kill.items()) if not killed]
    report["defines"] = {"mutants": len(define_kill), "not_exercised": dn}
    json.dump(report, open(os.path.join(V, "tools", "vocab_audit.out.json"), "w"), indent=1, ensure_ascii=False)
    print("pattern mutants: {} ; not exercised: {}".format(tot, unk))
    print("define mutants: {} ; not exercised: {}".format(len(define_kill), len(dn)))
    for rid in sorted(per):
        un = report["patterns"][str(rid)]["not_exercised"]
        if un:
            print("R{} {!r}".format(rid, R._regex_str[rid][:100]))
            for k, f in un:
                print("     {} {!r}".format(k, f[:80]))
    for k, f in dn:
        print("  DEFINE {} {!r}".format(k, f[:80]))


if __name__ == "__main__":
    main()
