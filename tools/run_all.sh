#!/bin/bash
# tools/run_all.sh <seed> [tier]: run every registered check once, print one summary line each (exit codes included)
SEED="${1:-1}"; TIER="${2:-quick}"
cd /verif
for id in $(python3 -c "import json;print(' '.join(c['property_id'] for c in json.load(open('MANIFEST.json'))['checks']))"); do
  s=$(date +%s)
  out=$(VERIF_SEED=$SEED ./check $id --tier $TIER 2>&1); rc=$?
  echo "$id seed=$SEED exit=$rc $(( $(date +%s) - s ))s :: $(echo "$out" | grep -c '^VIOLATION') VIOLATION, $(echo "$out" | grep -c '^KNOWN-FINDING') KNOWN :: $(echo "$out" | tail -1 | cut -c1-120)"
done
