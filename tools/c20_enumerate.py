#!/usr/bin/env python3
"""Maintenance tool (not a check): enumerate the C20 template domain and list failing templates per level.
Run: cd /verif && PYTHONHASHSEED=0 PYTHONPATH=/verif /venv/bin/python -W ignore tools/c20_enumerate.py > /tmp/c20_enum.json"""
import collections, json, sys, multiprocessing as mp
sys.path.insert(0, "/verif")
from qav import core
from qav.props import c20

HOURS = c20.HOURS
MINS = c20.MINS

def work(day):
    core.load_repo()
    res = {}
    k = 0
    for ci, (tpl, kind) in enumerate(c20.CLOCKS):
        for order in ("day-first", "clock-first"):
            for conn in c20.CONNS:
                for h in HOURS:
                    for mi in MINS:
                        k += 1
                        ref = c20.ref_for(day, tpl, order, conn, h, mi)
                        for level in ("L0", "L10"):
                            text, status, r = c20.check(day, tpl, kind, h, mi, order, conn, ref, level)
                            if status in ("excluded",) or status.startswith("skip"):
                                continue
                            key = json.dumps([day, tpl, order, conn, level])
                            e = res.setdefault(key, [0, 0, None, []])
                            e[1] += 1
                            if r:
                                e[0] += 1
                                e[2] = r[1][:200]
                                e[3].append([h, mi])
    return res

if __name__ == "__main__":
    with mp.get_context("fork").Pool(16) as p:
        out = {}
        for r in p.imap_unordered(work, c20.DAYS, chunksize=1):
            out.update(r)
    fails = {k: v for k, v in out.items() if v[0]}
    json.dump({"templates": len(out), "failing": fails}, sys.stdout, ensure_ascii=False)
