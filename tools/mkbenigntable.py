#!/usr/bin/env python3
"""Regenerate the table of DESIGN.md section 6.2 from benign/*/meta.json."""
import json
import os
import re

V = os.path.dirname(os.path.dirname(os.path.abspath(__file__)))


def cell(s, n):
    s = re.sub(r"\s+", " ", str(s)).replace("|", "/")
    return s[:n]


def main():
    rows = []
    fr = json.load(open(os.path.join(V, "benign", "first_runs.json"), encoding="utf-8"))
    for d in sorted(os.listdir(os.path.join(V, "benign"))):
        mp = os.path.join(V, "benign", d, "meta.json")
        if not os.path.exists(mp):
            continue
        m = json.load(open(mp, encoding="utf-8"))
        res = m.get("checks_run", {})
        first = fr.get(d)
        if first and (m.get("alarms") or m.get("harness_errors")):
            first = None  # not yet re-run after the correction: show the recorded outcome
        rows.append("| {} | {} | {} | {} | {} |".format(
            d, cell(m.get("summary", ""), 200), cell(m.get("behaviour_change", ""), 160),
            " ".join(sorted(res)), first or ("silent" if not m.get("alarms") and not m.get("harness_errors") else
                                             "alarm: " + ",".join(m.get("alarms", [])) + " harness error: " + ",".join(m.get("harness_errors", [])))))
    p = os.path.join(V, "DESIGN.md")
    lines = open(p, encoding="utf-8").read().split("\n")
    hdr = lines.index("| change | what it does | what differs observably | checks run (quick tier) | outcome |")
    end = hdr + 2
    while end < len(lines) and lines[end].startswith("| B"):
        end += 1
    lines[hdr + 2:end] = rows
    open(p, "w", encoding="utf-8").write("\n".join(lines))
    print(len(rows), "rows")


if __name__ == "__main__":
    main()
