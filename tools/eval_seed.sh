#!/bin/bash
# tools/eval_seed.sh <worktree> <k> <ID> [<ID>...]: confirm a sub-agent's seeded change in its own worktree
# (demo passes without, fails with; suite unchanged) and run checks on it; the worktree is reverted afterwards.
WT="$1"; K="$2"; shift 2
P="$WT/seed/patch$K.diff"; DEMO="seed/demo$K.py"
cd "$WT" || exit 3
git checkout -q -- . ; git checkout -q --detach main 2>/dev/null
( PYTHONPATH="$WT" TQDM_DISABLE=1 timeout 900 /venv/bin/python -W ignore "$DEMO" >/dev/null 2>&1 ); echo "demo on unchanged: exit=$?"
git apply "$P" || { echo "patch failed"; exit 3; }
( PYTHONPATH="$WT" TQDM_DISABLE=1 timeout 900 /venv/bin/python -W ignore "$DEMO" >/dev/null 2>&1 ); echo "demo with change: exit=$?"
( PYTHONPATH="$WT" /venv/bin/python -m pytest -q -p no:cacheprovider --timeout=900 2>&1 | tail -1 )
for id in "$@"; do
  out=$(cd /verif && QAV_REPO="$WT" QAV_NO_EVIDENCE=1 ./check "$id" --tier "${TIER:-quick}" 2>&1); rc=$?
  echo "== $id exit=$rc $(echo "$out" | grep -c '^VIOLATION') violation line(s)"
  echo "$out" | grep -A3 '^VIOLATION' | cut -c1-300 | head -${SHOW:-8}
  [ $rc = 2 ] && echo "$out" | tail -5
done
git checkout -q -- .
find "$WT" -name __pycache__ -type d -prune -exec rm -rf {} + 2>/dev/null
