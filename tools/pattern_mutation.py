#!/usr/bin/env python3
"""tools/pattern_mutation.py <logdir> <n> [seed]

Sensitivity self-test at the level of the library's patterns (complements the sub-agent seeds, DESIGN 6):
take n removal mutants of the registered patterns (one alternative or one optional atom dropped, the same
mutants as tools/vocab_audit.py) for which some recorded text of a semantic check matches differently, swap the
mutated pattern into the imported library (QAV_PATTERN_MUTANT, harness side only) and run the quick tier of the
checks whose recorded texts distinguish it.  Reports which mutants make a check fail.  A mutant that no check
reports is either semantically equivalent (another pattern/alternative yields the same resolution) or a gap.
<logdir> is a text log written by tools/vocab_audit.py --ids ... (files are tagged by check)."""
import json
import multiprocessing
import os
import random
import subprocess
import sys
import tempfile

V = os.path.dirname(os.path.dirname(os.path.abspath(__file__)))
sys.path.insert(0, V)
sys.path.insert(0, os.path.join(V, "tools"))
os.environ.setdefault("PYTHONHASHSEED", "0")
import vocab_audit as A  # noqa


def load_by_tag(logdir):
    by = {}
    for f in os.listdir(logdir):
        tag = f.split("-")[0]
        with open(os.path.join(logdir, f), encoding="utf-8") as fd:
            for line in fd:
                try:
                    by.setdefault(tag, set()).add(json.loads(line))
                except Exception:
                    pass
    return {k: sorted(v) for k, v in by.items()}


def _kill_tags(arg):
    rid, full, newfull, wit_by_tag = arg
    import regex
    orig = regex.compile(full, regex.VERSION1)
    try:
        mr = regex.compile(newfull, regex.VERSION1)
    except Exception:
        return None
    tags = {}
    for tag, snippets in wit_by_tag.items():
        for t in snippets:
            if A.sig(orig, t) != A.sig(mr, t):
                tags[tag] = t
                break
    return tags


def main():
    logdir, n = sys.argv[1], int(sys.argv[2])
    seed = int(sys.argv[3]) if len(sys.argv) > 3 else 1
    from qav import core
    core.load_repo()
    from ctparse import rule as R
    by_tag = load_by_tag(logdir)
    prefix_len = len(R._defines)
    muts = []
    for rid in sorted(R._regex):
        full = R._regex[rid].pattern
        body = R._regex_str[rid]
        off = full.index(body, prefix_len)
        for k, frag, new, pos in A.split_regions(body):
            muts.append((rid, k, frag, pos, full, full[:off] + new + full[off + len(body):]))
    rnd = random.Random(seed)
    rnd.shuffle(muts)
    A._G["regex"] = R._regex
    results = []
    with multiprocessing.get_context("fork").Pool(16) as pool:
        # witnesses per tag and pattern
        wit = {}
        for tag, texts in by_tag.items():
            for rid, w in pool.map(A._witness, [(rid, texts) for rid in sorted(R._regex)]):
                wit.setdefault(rid, {})[tag] = w[:20000]
        cand = muts[: n * 3]
        kt = pool.map(_kill_tags, [(rid, full, newfull, wit[rid]) for rid, k, frag, pos, full, newfull in cand])
    chosen = [(m, t) for m, t in zip(cand, kt) if t][:n]
    print("{} mutants sampled, {} distinguished by recorded texts; running {}".format(len(cand), sum(1 for t in kt if t), len(chosen)), flush=True)
    for (rid, k, frag, pos, full, newfull), tags in chosen:
        with tempfile.NamedTemporaryFile("w", suffix=".json", delete=False, encoding="utf-8") as fd:
            json.dump({"rid": rid, "pattern": newfull}, fd)
            spec = fd.name
        caught = {}
        for tag in sorted(tags):
            r = subprocess.run(["./check", tag, "--tier", "quick"], cwd=V, capture_output=True, text=True,
                               env=dict(os.environ, QAV_PATTERN_MUTANT=spec, QAV_NO_EVIDENCE="1"))
            caught[tag] = r.returncode
            if r.returncode == 1:
                break
        os.unlink(spec)
        rec = {"rid": rid, "pattern": R._regex_str[rid][:80], "kind": k, "dropped": frag, "at": pos,
               "distinguishing_text": {t: s for t, s in tags.items()}, "checks": caught,
               "caught": any(v == 1 for v in caught.values())}
        results.append(rec)
        print(json.dumps({k2: rec[k2] for k2 in ("rid", "kind", "dropped", "checks", "caught")}, ensure_ascii=False), flush=True)
        json.dump(results, open(os.path.join(V, "tools", "pattern_mutation.out.json"), "w"), indent=1, ensure_ascii=False)
    c = sum(1 for r in results if r["caught"])
    print("caught {} of {}".format(c, len(results)))


if __name__ == "__main__":
    main()
