#!/usr/bin/env python3
"""Regenerate /verif/MANIFEST.json from the table below (kept in one place so that the
manifest is always valid).  Run: python3-vt tools/mkmanifest.py"""
import json
import os

HERE = os.path.dirname(os.path.dirname(os.path.abspath(__file__)))

ALL = ["C%02d" % i for i in range(1, 21)]

# id -> (category, technique, level text, level note, design ref)
CHECKS = {
    "C18": ("exploration",
            "Hypothesis-generated pairs of resolutions + all dataset gold strings against a field-tuple equality oracle; round-trip of the bound-free text form",
            "Property-based search over generated pairs of Time/Interval/Duration objects (span-only copies, all single-field edits, independent draws, cross-kind) decides ==, hash and nb_str against an oracle computed from the generated field tuples; every gold string of the bundled dataset is round-tripped. Sampling, not proof: the Time field space is 10^13 values, single-field edits are enumerated per drawn base value.",
            "Trusts Python tuple equality as the meaning of 'same value'; field ranges as stated in the evidence assumptions.",
            "DESIGN.md 4 (C18)"),
}

NOT_YET = "check not built yet in this round (see DESIGN.md section 4 for the planned generated-input check)"


def main():
    checks = []
    for pid in ALL:
        if pid not in CHECKS:
            continue
        cat, tech, text, note, ref = CHECKS[pid]
        checks.append({
            "property_id": pid,
            "quick_cmd": "./check {} --tier quick".format(pid),
            "thorough_cmd": "./check {} --tier thorough".format(pid),
            "evidence_file": "/verif/evidence/{}.json".format(pid),
            "replay_cmd_template": "./check %s --replay {path}" % pid,
            "engine": "qav",
            "level_claimed": {"category": cat, "text": text, "design_ref": ref},
            "level_note": note,
            "technique": tech,
        })
    man = {
        "version": 1,
        "setup_cmd": "bash ./setup.sh",
        "hooks": {
            "guard": "ACREOM_QUICKADD_VERIF",
            "enable": "no guarded code exists in /repo: every observation point is reachable from outside (registry entries are replaceable dict values, the clock is a module attribute, scorers are arguments); checks import the working tree directly",
            "baseline_off_cmd": "cd /repo && /venv/bin/python -m pytest -ra -q -p no:cacheprovider --timeout=900 --continue-on-collection-errors",
            "source_commits": [],
            "add_only": True,
        },
        "engines": [{
            "name": "qav",
            "path": "/verif/qav",
            "serves_properties": sorted(CHECKS),
            "kind_free_text": "property-based testing (Hypothesis strategies and stateful machines, exhaustive enumeration of finite sub-domains sharded over 16 cores, atheris coverage-guided fuzzing) against reference-model, metamorphic, differential and validity oracles; collect-bucket-shrink-replay",
        }],
        "checks": checks,
        "notes": "Exit codes: 0 held / 1 VIOLATION line(s) printed / 2 harness error (never a verdict). QAV_REPO selects the tree (default /repo). known_findings.json lists recorded findings and fixed defects; regress/<ID>/ holds saved replays re-executed first by every run.",
        "not_applicable": [{"property_id": p, "reason": NOT_YET} for p in ALL if p not in CHECKS],
    }
    with open(os.path.join(HERE, "MANIFEST.json"), "w") as fd:
        json.dump(man, fd, indent=1)
        fd.write("\n")
    try:
        import jsonschema

        jsonschema.validate(man, json.load(open("/root/.vp/MANIFEST.schema.json")))
        for c in checks:
            p = os.path.join(HERE, "evidence", c["property_id"] + ".json")
            if os.path.exists(p):
                jsonschema.validate(json.load(open(p)), json.load(open("/root/.vp/EVIDENCE.schema.json")))
        print("MANIFEST valid; {} checks, {} not_applicable".format(len(checks), len(man["not_applicable"])))
    except ImportError:
        print("written (jsonschema not available, not validated)")


if __name__ == "__main__":
    main()
