#!/usr/bin/env python3
"""Regenerate /verif/MANIFEST.json from the table below (kept in one place so that the
manifest is always valid).  Run: python3-vt tools/mkmanifest.py"""
import json
import os

HERE = os.path.dirname(os.path.dirname(os.path.abspath(__file__)))

ALL = ["C%02d" % i for i in range(1, 21)]

# id -> (category, technique, level text, level note, design ref)
CHECKS = {
    "C01": ("exploration",
            "Hypothesis text/option/reference-time generation + injected configuration fault (model file absent) + atheris coverage-guided fuzzing (thorough); oracle = no exception, terminating stream, well-typed renderable result",
            "Generated-input search over unicode text, vocabulary token soup (impossible dates, stacked modifiers, huge durations), mutated corpus expressions x reference times x all option settings; every call runs with timeout=0 so termination is real; failures bucketed by (exception type, innermost ctparse frame). Exploration: absence is not established, depth 0 is explored only within the stated work bound.",
            "timeout=0; work bound on candidate sequences (evidence assumptions); model-absent fault simulated by patching os.path.exists before import in a fresh subprocess.",
            "DESIGN.md 4 (C01)"),
    "C02": ("exploration",
            "Hypothesis date-biased token soup and mutated corpus; validity predicate over ALL streamed candidates (fields, calendar, interval order, accessors, span)",
            "Every candidate of the stream (not only the winner), latent on and off, is checked against a validity predicate written from the property; buckets by failed clause and last rule. Exploration over generated texts; the predicate is exact, the input space is sampled.",
            "Reference normaliser N (unicodedata) gives the text length for the span bound; free text restricted to code points assigned in Python's unicodedata.",
            "DESIGN.md 4 (C02)"),
    "C14": ("exploration",
            "Hypothesis texts x options x scorers; differential between ctparse() and list(ctparse_gen()) with identical arguments (random scorer seeded identically)",
            "The single-result call is compared field by field with the stream under identical arguments and scorers; score finiteness and the strictly-better re-emission rule are checked on every stream.",
            "Assumes the parser is deterministic for a seeded scorer (which C12 checks).",
            "DESIGN.md 4 (C14)"),
    "C16": ("exploration",
            "Hypothesis-generated training corpora and queries; differential against a 25-line textbook multinomial NB reference; score composition recomputed from model tables via a recording scorer; save/load round-trip",
            "predict_log_proba of the fitted pipeline is compared with an independent Counter-based Laplace-smoothed multinomial NB over 1-3-grams for generated corpora (class balance, empty/unseen/repeated tokens); every score()/score_final() call made while parsing bundled corpus expressions under the shipped model is recomputed from the model tables and the covered share; persistence round-trips.",
            "Tokens contain no blanks; tolerances stated in the evidence.",
            "DESIGN.md 4 (C16)"),
    "C17": ("exploration",
            "Differential: dataset builders vs a sample list rebuilt from an independent candidate stream with value-equality labels (generated gold objects of all three kinds, random spans, perturbed values, dataset golds); metamorphic monotonicity of retrained log-odds under duplicated positives (Hypothesis training sets)",
            "make_partial_rule_dataset and run_corpus outputs are compared as lists with the samples the property prescribes, for entries of all bundled corpora and generated gold values; retraining with k extra copies of a positive example must not lower its log-odds (a theorem for correct Laplace-smoothed NB).",
            "Uses ctparse_gen itself to obtain the candidate stream (its correctness is the subject of C14/C15, not of C17).",
            "DESIGN.md 4 (C17)"),
    "C18": ("exploration",
            "Hypothesis-generated pairs of resolutions + all dataset gold strings against a field-tuple equality oracle; round-trip of the bound-free text form",
            "Property-based search over generated pairs of Time/Interval/Duration objects (span-only copies, all single-field edits, independent draws, cross-kind) decides ==, hash and nb_str against an oracle computed from the generated field tuples; every gold string of the bundled dataset is round-tripped. Sampling, not proof: the Time field space is 10^13 values, single-field edits are enumerated per drawn base value.",
            "Trusts Python tuple equality as the meaning of 'same value'; field ranges as stated in the evidence assumptions.",
            "DESIGN.md 4 (C18)"),
}

CHECKS["C19"] = ("exploration",
    "Enumeration of all @rule definitions (syntax tree) vs registry, all patterns x generated/corpus probe texts, firing witnesses via counting registry wrappers, all modifier chains to depth 3, all vocabulary unigrams",
    "The finite parts (rule definitions, pattern tables, modifier chains, vocabulary) are enumerated completely against validity predicates; the 'no zero-length match' clause is explored with Hypothesis/corpus probe texts under overlapped search; 'can fire' is decided by a firing witness per rule.",
    "Reads ctparse/time/rules.py with ast; the registry is observed (and temporarily wrapped, then restored) in process.",
    "DESIGN.md 4 (C19)")

CHECKS["C11"] = ("exploration",
    "Exhaustive sweep of every assigned code point x 4 contexts against a unicodedata reference normaliser; Hypothesis strings (equality with reference, idempotence); metamorphic parse-level variants (separator runs, every dash character, case changes) of corpus/grammar expressions",
    "The single-code-point sub-domain is enumerated completely (about 290k assigned code points x 4 contexts) - absence of a wrongly normalised code point is established there; multi-character strings and parse-level variants are sampled with Hypothesis; the metamorphic relation compares the returned resolution and the multiset of candidate values.",
    "Python's unicodedata version is the reference for 'assigned' and for categories.",
    "DESIGN.md 4 (C11)")

CHECKS["C13"] = ("fault_enumeration",
    "Virtual-clock fault injection: every expiry point (deadline between any two consecutive clock reads) of each input is enumerated; prefix/differential oracle against the untimed run; work-after-deadline counted with recording scorer, registry wrappers and applicability-analysis recorder; structural 'one work unit between two deadline checks' oracle; history clause: the untimed stream of a fresh process after ~165 timed-out runs equals that of a fresh process without them",
    "The timeout fault is injected at every possible point of the run (complete for inputs within the stated read budget, stratified beyond) including inputs with 3^n candidate sequences; each run is compared with the untimed run (prefix, best-of-prefix, exact stop at the first due check) and the work between/after checks is bounded independently of the number of sequences.",
    "Assumes the only time source is ctparse.timers.perf_counter (patched); a deadline check is a clock read not made by the timeit wrapper.",
    "DESIGN.md 4 (C13)")

CHECKS["C12"] = ("exploration",
    "Hypothesis stateful (rule-based) machine over call histories incl. abandoned/closed streams and calls whose scorer raises; exhaustive enumeration of all interleavings of two short candidate streams; 8-thread stress; fresh-subprocess baselines under several PYTHONHASHSEED values; deep before/after snapshots of rule base and model",
    "Every completed call or stream inside generated histories must equal the observation made in a fresh PYTHONHASHSEED=0 process (value, span, score, production, subject, labels); generator-step interleavings are enumerated completely for the listed pairs (n1+n2<=12 steps); the thread part is a stress run only.",
    "The harness does not own the thread schedule; floating point scores compared exactly on the same machine.",
    "DESIGN.md 4 (C12)")
CHECKS["C15"] = ("exploration",
    "Differential against an independently written naive derivation closure (reference model) on generated short texts x scorers x depth limits; in-place argument-snapshotting registry wrappers for purity; candidates re-observed after the stream ends",
    "For texts whose derivation graph is enumerable the complete graph is built with clones; soundness (value and span derivable), the reported production being a real path, completeness at unlimited depth (every fully reduced result streamed) and purity are decided exactly per text; the text space is sampled with Hypothesis.",
    "The reference shares the registered rule functions/predicates, the pattern table and the RegexMatch class with the library, nothing of the search.",
    "DESIGN.md 4 (C15)")

CHECKS["C03"] = ("exploration",
    "Enumeration of every surface form of the frozen relative-day vocabulary x reference-date sweep (thorough: canonical forms over every date of the 28-year cycle, all forms over edge dates; quick: Hypothesis sample biased to edge dates) against a date.toordinal reference model",
    "Reference-model oracle (stdlib calendar arithmetic, no dateutil) over the product forms x reference times; the thorough tier enumerates the complete 2016-2043 cycle x 3 times of day for one canonical form per concept, so month/year/leap roll-overs are all visited; surface forms are a frozen specification vocabulary.",
    "Conventions (this/next weekday, EOM/EOY) as the property fixes them; vocabulary limited to notations the patterns define.",
    "DESIGN.md 4 (C03)")

CHECKS["C04"] = ("exploration",
    "Enumeration of weekday / day-of-month / day+month / part-of-day surface forms x reference-date sweep (thorough: complete 28-year cycle for weekdays and days of month, complete leap cycle x all 366 pairs) against a date.toordinal reference model; Hypothesis sampling in the quick tier",
    "Reference-model oracle for 'first matching date' (months/years lacking the day skipped, 29 Feb waits for a leap year) plus the preserved-written-fields clause; finite sub-domains enumerated completely in the thorough tier, sampled with edge-date bias in the quick tier.",
    "Part-of-day start hours come from the library's own table; spelling -> part of day mapping frozen in the grammar; ambiguous spellings ('so früh', '5ten') documented as not asserted.",
    "DESIGN.md 4 (C04)")

CHECKS["C05"] = ("exploration",
    "Enumeration of all valid dates 1990-2029 x frozen absolute notations (numeric and month-name, every month spelling) x clock variants under several reference times (thorough: all 14 610 dates; quick: Hypothesis sample); oracle = the written fields, metamorphic independence of the reference time",
    "The written (y, m, d[, h, mi]) is the oracle and must come out for every reference time, hence all notations agree; thorough enumerates the whole date range for every numeric notation.",
    "Military-time years excluded for month-name notations as the property states; dd.mm.yy = 20yy.",
    "DESIGN.md 4 (C05)")

CHECKS["C06"] = ("exploration",
    "Exhaustive enumeration of 1440 minutes x frozen clock notations (latent off) against the written hour/minute; spoken and hour-in-part-of-day forms enumerated; latent-on cases over a boundary set of reference times per minute against a 'first occurrence strictly after the reference minute' reference model",
    "The latent-off product minutes x digit notations is enumerated completely in both tiers (no sampling), so a notation that drops or shifts a field for any minute is found; latent anchoring is checked on both sides of the requested minute and across day/month/year/leap-day roll-overs.",
    "Notations with a competing reading by the library's own patterns are listed in the evidence assumptions and not asserted.",
    "DESIGN.md 4 (C06)")

CHECKS["C07"] = ("exploration",
    "Enumeration of all 24x24 hour pairs x minute variants x joiners x anchors (thorough) and Hypothesis sampling of date pairs / clock ranges (quick) against a reference model of the wrap rule; strict tier for explicit clock notation, candidate tier for bare digits; all before/after alternatives enumerated",
    "Reference-model oracle for range ends (12h / next-day wrap, never inverted, never longer than 24 h) and half-open before/after intervals; the finite hour-pair domain is enumerated completely in the thorough tier; every candidate interval with dated ends is also checked for order.",
    "Month-name date ranges fail under the default beam (recorded known finding, matched by notation, depth and failed clause) and are asserted with max_stack_depth=0 instead.",
    "DESIGN.md 4 (C07)")

CHECKS["C08"] = ("exploration",
    "Complete enumeration of digits 0..120 and all number words x all unit spellings against the written (amount, unit); Hypothesis-generated '<date[ time]> for N unit' cases against a date.toordinal/add_months reference model; metamorphic iff-relation for duration vs. date-range consistency (candidate built by a consistency rule exists iff the range is N days long)",
    "Amount/unit preservation is enumerated completely over the frozen number and unit vocabulary; interval ends are compared with stdlib calendar arithmetic incl. month-end clipping; the consistency clause is checked in both directions (accepted iff consistent).",
    "Colliding short forms (N h, N night, N m) are asserted on the candidate stream only.",
    "DESIGN.md 4 (C08)")

CHECKS["C09"] = ("exploration",
    "Metamorphic relation: expressions of the bundled corpora/dataset/grammar embedded among Hypothesis-generated inert words (inertness decided on the whole text with the library's own patterns) must keep value and (shifted) span; span tightness predicate",
    "Generated embeddings (prefix/suffix of 0-3 inert words, latent on/off, corpus or edge reference times) are compared with the parse of the bare expression: equal value, span shifted by the prefix length, no neighbouring word or blank inside the span.",
    "Expressions not recognised alone are skipped; inert-word redraws are counted in the evidence.",
    "DESIGN.md 4 (C09)")
CHECKS["C10"] = ("exploration",
    "Hypothesis-assembled texts (inert words, ordinary words, valid hashtags incl. duplicates, one time expression, library separator runs) with word-list validity predicates and metamorphic variants (hashtags removed; expression removed = no-match path)",
    "Labels/subject are checked as word lists against what the generator put into the text (labels exactly the hashtags in order; inert words kept in order with multiplicity; subsequence of the input; words inside matches the resolution was built from dropped) and under the two metamorphic variants.",
    "Words matching a pattern but unused are unconstrained (the property leaves them open).",
    "DESIGN.md 4 (C10)")

CHECKS["C20"] = ("exploration",
    "Homomorphism (metamorphic) oracle over a finite product domain day forms x clock templates x orders x connectors x hours x minutes: parse(day+clock) = date of parse(day) + time of parse(clock); quick = Hypothesis sample of the domain, thorough = complete enumeration; two levels (max_stack_depth 0 and default)",
    "Every text of the finite specification domain is decided against the composition of its two parts, at depth 0 (productions, patterns, coverage filter, ranking) and at the default depth (adds beam pruning). The thorough tier enumerates the domain completely; failures under the default beam are known findings listed by exact template keys generated from that enumeration, anything else is a violation.",
    "Known findings C20-L10-* (beam pruning) and C20-L0-October_5 (bilingual re-bracketing) are matched by day form, level and template key.",
    "DESIGN.md 4 (C20)")

NOT_YET = "check not built yet in this round (see DESIGN.md section 4 for the planned generated-input check)"


def main():
    checks = []
    for pid in ALL:
        if pid not in CHECKS:
            continue
        cat, tech, text, note, ref = CHECKS[pid]
        checks.append({
            "property_id": pid,
            "quick_cmd": "./check {} --tier quick".format(pid),
            "thorough_cmd": "./check {} --tier thorough".format(pid),
            "evidence_file": "/verif/evidence/{}.json".format(pid),
            "replay_cmd_template": "./check %s --replay {path}" % pid,
            "engine": "qav",
            "level_claimed": {"category": cat, "text": text, "design_ref": ref},
            "level_note": note,
            "technique": tech,
        })
    man = {
        "version": 1,
        "setup_cmd": "bash ./setup.sh",
        "hooks": {
            "guard": "ACREOM_QUICKADD_VERIF",
            "enable": "no guarded code exists in /repo: every observation point is reachable from outside (registry entries are replaceable dict values, the clock is a module attribute, scorers are arguments); checks import the working tree directly",
            "baseline_off_cmd": "cd /repo && /venv/bin/python -m pytest -ra -q -p no:cacheprovider --timeout=900 --continue-on-collection-errors",
            "source_commits": [],
            "add_only": True,
        },
        "engines": [{
            "name": "qav",
            "path": "/verif/qav",
            "serves_properties": sorted(CHECKS),
            "kind_free_text": "property-based testing (Hypothesis strategies and stateful machines, exhaustive enumeration of finite sub-domains sharded over 16 cores, atheris coverage-guided fuzzing) against reference-model, metamorphic, differential and validity oracles; collect-bucket-shrink-replay",
        }],
        "checks": checks,
        "notes": "Exit codes: 0 held / 1 VIOLATION line(s) printed / 2 harness error (never a verdict). QAV_REPO selects the tree (default /repo). known_findings.json lists recorded findings and fixed defects; regress/<ID>/ holds saved replays re-executed first by every run.",
        "not_applicable": [{"property_id": p, "reason": NOT_YET} for p in ALL if p not in CHECKS],
    }
    with open(os.path.join(HERE, "MANIFEST.json"), "w") as fd:
        json.dump(man, fd, indent=1)
        fd.write("\n")
    try:
        import jsonschema

        jsonschema.validate(man, json.load(open("/root/.vp/MANIFEST.schema.json")))
        for c in checks:
            p = os.path.join(HERE, "evidence", c["property_id"] + ".json")
            if os.path.exists(p):
                jsonschema.validate(json.load(open(p)), json.load(open("/root/.vp/EVIDENCE.schema.json")))
        print("MANIFEST valid; {} checks, {} not_applicable".format(len(checks), len(man["not_applicable"])))
    except ImportError:
        print("written (jsonschema not available, not validated)")


if __name__ == "__main__":
    main()
