#!/usr/bin/env python3
"""tools/keep_seed.py <worktree> <k> <name> <ID> [<ID>...]
Confirm a sub-agent's seeded change (tools/eval_seed.sh), and keep it as /verif/seeded/<name>/
(patch.diff, demo.py, meta.json with what was run and which checks caught it)."""
import json
import os
import re
import shutil
import subprocess
import sys

HERE = os.path.dirname(os.path.dirname(os.path.abspath(__file__)))


def main():
    wt, k, name = sys.argv[1:4]
    ids = sys.argv[4:]
    out = subprocess.run([os.path.join(HERE, "tools", "eval_seed.sh"), wt, k] + ids, capture_output=True, text=True,
                         env=dict(os.environ, SHOW="4")).stdout
    print(out)
    m0 = re.search(r"demo on unchanged: exit=(\d+)", out)
    m1 = re.search(r"demo with change: exit=(\d+)", out)
    tests = re.search(r"(\d+ failed, \d+ passed[^\n]*)", out)
    confirmed = bool(m0 and m1 and m0.group(1) == "0" and m1.group(1) != "0" and tests and "70 passed" in tests.group(1)
                     and tests.group(1).startswith("1 failed"))
    det = {}
    for mm in re.finditer(r"== (C\d+) exit=(\d+) (\d+) violation", out):
        det[mm.group(1)] = {"exit": int(mm.group(2)), "violation_lines": int(mm.group(3))}
    buckets = re.findall(r"bucket: ([^\n]*)", out)
    if not confirmed:
        print("NOT CONFIRMED - not kept")
        return 1
    d = os.path.join(HERE, "seeded", name)
    os.makedirs(d, exist_ok=True)
    shutil.copy(os.path.join(wt, "seed", "patch%s.diff" % k), os.path.join(d, "patch.diff"))
    shutil.copy(os.path.join(wt, "seed", "demo%s.py" % k), os.path.join(d, "demo.py"))
    meta = json.load(open(os.path.join(wt, "seed", "meta%s.json" % k)))
    meta.update({
        "confirmed": {"demo_exit_unchanged": int(m0.group(1)), "demo_exit_with_change": int(m1.group(1)),
                      "pytest_with_change": tests.group(1)},
        "what_was_run": ["git apply patch.diff (scratch worktree of /repo at main)",
                         "PYTHONPATH=<worktree> /venv/bin/python demo.py (before and after applying)",
                         "PYTHONPATH=<worktree> /venv/bin/python -m pytest -q -p no:cacheprovider --timeout=900",
                         "QAV_REPO=<worktree> ./check <ID> --tier quick for " + ", ".join(ids)],
        "checks_run": det,
        "caught_by": sorted(i for i, v in det.items() if v["exit"] == 1),
        "first_buckets": buckets[:4],
        "note": "the demo asserts that ctparse is imported from the sub-agent's worktree path; run it there",
    })
    json.dump(meta, open(os.path.join(d, "meta.json"), "w"), indent=1, ensure_ascii=False)
    print("kept as", d, "caught_by", meta["caught_by"])
    return 0


if __name__ == "__main__":
    sys.exit(main())
