#!/usr/bin/env python3
"""Maintenance tool: turn the complete enumeration of the C20 domain (tools/c20_enumerate.py) into
known_findings.json entries.  One entry per (day form, level); the entry lists the exact
'<clock template>|<order>|<connector>' keys that fail.  Run by hand, reviewed, committed - never by a check."""
import collections, json, re, sys
EX = lambda d: (re.match(r"^(.*?) at \d{4}-\d\d-\d\dT", d) or re.match(r"(.*)", d)).group(1)
enum = json.load(open(sys.argv[1]))
kf = json.load(open("/verif/known_findings.json"))
kf["findings"] = [f for f in kf["findings"] if not f["id"].startswith("C20-")]
groups = collections.defaultdict(list)
examples = {}
for k, v in enum["failing"].items():
    day, tpl, order, conn, level = json.loads(k)
    groups[(day, level)].append("{}|{}|{}".format(tpl, order, conn))
    examples.setdefault((day, level), v[2])
for (day, level), keys in sorted(groups.items()):
    if level == "L10":
        what = ("day form {!r} + clock ({} template/order/connector combinations, e.g. {}): the glued reading is lost under the default "
                "max_stack_depth=10 (beam pruning of the initial stack); the same texts are right with max_stack_depth=0, which the check asserts"
                ).format(day, len(keys), EX(examples[(day, level)]))
    else:
        what = ("day form {!r} + clock ({} combinations, e.g. {}): wrong even with nothing pruned - a competing bilingual reading "
                "('<h> am <Month> <d>' = the h-th on <Month>, d o'clock) outranks the glued one").format(day, len(keys), EX(examples[(day, level)]))
    kf["findings"].append({"id": "C20-{}-{}".format(level, day.replace(" ", "_")), "property": "C20",
                           "match": {"day": day, "level": level, "tplkey": {"any_of": sorted(keys)}}, "what": what})
json.dump(kf, open("/verif/known_findings.json", "w"), indent=1, ensure_ascii=False)
print(len([f for f in kf["findings"] if f["id"].startswith("C20-")]), "C20 findings written")
