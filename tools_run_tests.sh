#!/bin/bash
# run the repository's pinned suite; prints the summary line; expected: 70 passed, 1 failed (test_ctparse, always failing in the baseline)
cd "${1:-/repo}" && /venv/bin/python -m pytest -q -p no:cacheprovider --timeout=900 2>&1 | tail -4
