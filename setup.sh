#!/bin/bash
# offline setup: make sure hypothesis is importable from /venv and atheris from /verif/.deps
set -e
cd "$(dirname "$0")"
/venv/bin/python -c "import hypothesis" 2>/dev/null || \
  /venv/bin/pip install -q --no-index --find-links /opt/veriftools/wheels hypothesis
if ! PYTHONPATH=.deps /venv/bin/python -c "import atheris" 2>/dev/null; then
  /venv/bin/pip install -q --no-index --find-links /opt/veriftools/wheels --target .deps atheris || \
    echo "atheris not installable: the C01 fuzz campaign of the thorough tier will be skipped (reported in evidence)"
fi
chmod +x check
echo setup done
